#!/usr/bin/env bash
# Soundness soak: the quick checks must stay quiet on the unchanged tree for every VERIF_SEED,
# not only the default one.  tools/soak.sh <first-seed> <last-seed> [ids…]
# Evidence and replays of these runs go to a scratch directory.
set -u
HERE="$(cd "$(dirname "$0")/.." && pwd)"
first="${1:-2}"; last="${2:-20}"; shift 2 || true
ids="${*:-C18 C11 C12 C19}"
export VERIF_SCRATCH_OUT="$(mktemp -d)"
# under `vp run --with-repo` use the snapshot of /repo, so that edits to /repo (seeded changes
# being tested) cannot contaminate the soak
[ -n "${VP_RUN_REPO:-}" ] && export VERIF_REPO="$VP_RUN_REPO"
bad=0
for seed in $(seq "$first" "$last"); do
  for id in $ids; do
    out="$(VERIF_SEED=$seed "$HERE/check" "$id" quick 2>&1)"; rc=$?
    if [ $rc -ne 0 ]; then
      bad=$((bad+1))
      echo "SEED $seed $id: exit $rc"
      echo "$out" | grep -E "oracle|VIOLATION|harness|\[H/" | head -5
      mkdir -p "$HERE/soak-failures"; cp "$VERIF_SCRATCH_OUT"/*-"$seed"-*.json "$HERE/soak-failures/" 2>/dev/null
    else
      echo "seed $seed $id: ok"
    fi
  done
done
rm -rf "$VERIF_SCRATCH_OUT"
echo "soak: seeds $first..$last, $bad failing runs"
exit $bad
