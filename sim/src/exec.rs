//! Execute the real front end (lexer, parser, syntax, source_file, semantics: all real code)
//! on a world, with the simulated file system/environment installed on this thread, and
//! collect everything observable through the public API.

use crate::simfs::{BudgetExceeded, Call, Sim, SimState};
use crate::world::{Entry, World};
use oq3_semantics::asg::Program;
use oq3_semantics::semantic_error::SemanticErrorList;
use oq3_semantics::symbols::SymbolTable;
use oq3_semantics::syntax_to_semantics as s2s;
use oq3_source_file::verif_seam::install;
use oq3_source_file::{SourceFile, SourceTrait};
use oq3_syntax::SyntaxKind;
use std::cell::RefCell;
use std::panic::{catch_unwind, AssertUnwindSafe};
use std::path::PathBuf;
use std::rc::Rc;

#[derive(Clone, Debug, PartialEq)]
pub struct Diag {
    pub kind: String,
    pub start: usize,
    pub end: usize,
    /// text of the syntax node as printed by the diagnostic's `Display`
    pub text: Option<String>,
}

#[derive(Clone, Debug, PartialEq)]
pub struct ListTree {
    pub tag: String,
    /// what the printer sees of `diags`: `ErrorTrait::range()` and `ErrorTrait::message()`
    pub trait_view: TraitView,
    pub diags: Vec<Diag>,
    pub children: Vec<ListTree>,
}

#[derive(Clone, Debug, PartialEq)]
pub struct SynDiag {
    pub msg: String,
    pub start: usize,
    pub end: usize,
}

/// `ErrorTrait` view (what the printer uses) of the syntax diagnostics of one parsed source, as
/// (start, end, message); compared with the inherent view by oracle S1.
pub type TraitView = Vec<(usize, usize, String)>;

/// One node of the tree of parsed sources (`syntax_result()` and its `included()`).
#[derive(Clone, Debug, PartialEq)]
pub struct SynFile {
    pub path: String,
    pub has_ast: bool,
    pub have_parse: bool,
    pub errors: Vec<SynDiag>,
    pub include_error: Option<String>,
    /// length of the text spelled by the tree (when there is a tree)
    pub tree_text_len: Option<usize>,
    pub has_error_node: bool,
    pub trait_view: TraitView,
    /// the inherent accessors of an included source (`ast()`, `included_files()`) agree with
    /// the `SourceTrait` view of the same data
    pub accessors_agree: bool,
    pub children: Vec<SynFile>,
}

#[derive(Clone, Debug)]
pub struct Obs {
    pub any_syntax: bool,
    pub any_semantic: bool,
    pub num_syntax_errors: usize,
    pub have_syntax_errors_trait: bool,
    pub all_syntax_errors_count: usize,
    pub program: Program,
    pub symtab: SymbolTable,
    pub lists: ListTree,
    pub files: SynFile,
    /// side table of constant values (public field of `Context`)
    pub const_values: hashbrown::HashMap<oq3_semantics::symbols::SymbolId, oq3_semantics::asg::TExpr>,
    /// annotations still pending at the end of the analysis (public field of `Context`)
    pub pending_annotations: usize,
    /// print mode only: outcome of `print_errors()` (the consumer of the spans) and the seam
    /// calls it made (it reads the files again)
    pub print_outcome: Option<Result<(), String>>,
    pub print_calls: Vec<Call>,
}

#[derive(Clone, Debug)]
pub enum RunResult {
    Returned(Box<Obs>),
    Panic(String),
    Budget,
}

pub struct Run {
    pub result: RunResult,
    pub history: Vec<Call>,
}

pub fn list_tree(l: &SemanticErrorList) -> ListTree {
    ListTree {
        tag: l.source_file_path().to_string_lossy().into_owned(),
        trait_view: l
            .iter()
            .map(|e| {
                let r = oq3_source_file::ErrorTrait::range(e);
                (r.start().into(), r.end().into(), oq3_source_file::ErrorTrait::message(e))
            })
            .collect(),
        diags: l
            .iter()
            .map(|e| {
                let d = format!("{}", e);
                let k = format!("{:?}: ", e.kind());
                let r = format!(", {:?}", e.range());
                let t = d
                    .strip_prefix(&k)
                    .and_then(|x| x.strip_suffix(&r))
                    .map(|x| x.to_string());
                Diag {
                    kind: format!("{:?}", e.kind()),
                    start: e.range().start().into(),
                    end: e.range().end().into(),
                    text: t,
                }
            })
            .collect(),
        children: l.include_errors().iter().map(list_tree).collect(),
    }
}

fn syn_tree<T: SourceTrait>(s: &T, include_error: Option<String>) -> SynFile {
    syn_tree_inner(s, include_error, true)
}

fn syn_tree_inner<T: SourceTrait>(s: &T, include_error: Option<String>, accessors_agree: bool) -> SynFile {
    let trait_view: TraitView = s
        .syntax_ast()
        .map(|a| {
            a.errors()
                .iter()
                .map(|e| {
                    let r = oq3_source_file::ErrorTrait::range(e);
                    (r.start().into(), r.end().into(), oq3_source_file::ErrorTrait::message(e))
                })
                .collect()
        })
        .unwrap_or_default();
    let (has_ast, have_parse, errors, tree_text_len, has_error_node) = match s.syntax_ast() {
        Some(a) => {
            let errors = a
                .errors()
                .iter()
                .map(|e| SynDiag {
                    msg: e.to_string(),
                    start: e.range().start().into(),
                    end: e.range().end().into(),
                })
                .collect();
            if a.have_parse() {
                let node = a.syntax_node();
                let len: usize = node.text_range().len().into();
                let has_err = node
                    .descendants_with_tokens()
                    .any(|e| e.kind() == SyntaxKind::ERROR);
                (true, true, errors, Some(len), has_err)
            } else {
                (true, false, errors, None, false)
            }
        }
        None => (false, false, vec![], None, false),
    };
    SynFile {
        path: s.file_path().to_string_lossy().into_owned(),
        has_ast,
        have_parse,
        errors,
        include_error,
        tree_text_len,
        has_error_node,
        trait_view,
        accessors_agree,
        children: s
            .included()
            .iter()
            .map(|c: &SourceFile| {
                let agree = c.ast().is_some() == c.syntax_ast().is_some()
                    && c.included_files().len() == c.included().len();
                syn_tree_inner(c, c.include_error().map(|e| format!("{:?}", e.error)), agree)
            })
            .collect(),
    }
}

fn observe<T: SourceTrait>(
    r: s2s::ParseResult<T>,
    print: Option<&dyn Fn(&s2s::ParseResult<T>)>,
    sim: &Sim,
) -> Obs {
    let mut o = observe_ref(&r);
    if let Some(print) = print {
        let before = sim.0.borrow().history.len();
        sim.0.borrow_mut().budget += 256;
        let res = catch_unwind(AssertUnwindSafe(|| print(&r)));
        o.print_outcome = Some(res.map_err(|p| {
            if p.downcast_ref::<BudgetExceeded>().is_some() {
                "seam-call budget exhausted while printing".to_string()
            } else {
                panic_message(p.as_ref())
            }
        }));
        o.print_calls = sim.0.borrow_mut().history.split_off(before);
    }
    let ctx = r.take_context();
    o.pending_annotations = ctx.annotations.len();
    o.const_values = ctx.const_values;
    o
}

fn observe_ref<T: SourceTrait>(r: &s2s::ParseResult<T>) -> Obs {
    Obs {
        any_syntax: r.any_syntax_errors(),
        any_semantic: r.any_semantic_errors(),
        num_syntax_errors: r.num_syntax_errors(),
        have_syntax_errors_trait: r.syntax_result().have_syntax_errors(),
        all_syntax_errors_count: r.syntax_result().all_syntax_errors().count(),
        program: r.program().clone(),
        symtab: r.symbol_table().clone(),
        lists: list_tree(r.semantic_errors()),
        files: syn_tree(r.syntax_result(), None),
        const_values: Default::default(),
        pending_annotations: 0,
        print_outcome: None,
        print_calls: vec![],
    }
}

pub fn panic_message(p: &(dyn std::any::Any + Send)) -> String {
    if let Some(s) = p.downcast_ref::<String>() {
        s.clone()
    } else if let Some(s) = p.downcast_ref::<&str>() {
        s.to_string()
    } else {
        "non-string panic payload".into()
    }
}

/// Call the entry point of `w` with the simulator installed. Never unwinds.
pub fn run_world(w: &World) -> Run {
    run_world_opts(w, false)
}

/// `print`: after the analysis also call `print_errors()` (writes the rendered diagnostics to the
/// real stdout; the caller is expected to have redirected it).
pub fn run_world_opts(w: &World, print: bool) -> Run {
    let sim = Rc::new(Sim(RefCell::new(SimState::from_world(w))));
    let guard = install(sim.clone());
    let res = catch_unwind(AssertUnwindSafe(|| {
        let dirs: Option<Vec<PathBuf>> = w
            .list
            .as_ref()
            .map(|l| l.iter().map(PathBuf::from).collect());
        match &w.entry {
            Entry::StringSearch { text } => {
                let p = |r: &s2s::ParseResult<oq3_source_file::SourceString>| r.print_errors();
                observe(
                    s2s::parse_source_string_with_path_search(text, None, dirs.as_deref()),
                    if print { Some(&p) } else { None },
                    &sim,
                )
            }
            Entry::StringPlain { text } => {
                let p = |r: &s2s::ParseResult<oq3_source_file::SourceString>| r.print_errors();
                observe(s2s::parse_source_string(text, None), if print { Some(&p) } else { None }, &sim)
            }
            Entry::FileSearch { path } => {
                let p = |r: &s2s::ParseResult<SourceFile>| r.print_errors();
                observe(
                    s2s::parse_source_file_with_search(path, dirs.as_deref()),
                    if print { Some(&p) } else { None },
                    &sim,
                )
            }
            Entry::FilePlain { path } => {
                let p = |r: &s2s::ParseResult<SourceFile>| r.print_errors();
                observe(s2s::parse_source_file(path), if print { Some(&p) } else { None }, &sim)
            }
        }
    }));
    drop(guard);
    let result = match res {
        Ok(o) => RunResult::Returned(Box::new(o)),
        Err(p) => {
            if p.downcast_ref::<BudgetExceeded>().is_some() {
                RunResult::Budget
            } else {
                RunResult::Panic(panic_message(p.as_ref()))
            }
        }
    };
    let history = std::mem::take(&mut sim.0.borrow_mut().history);
    Run { result, history }
}

/// The reference run of the as-if oracle: the flattened text analysed as one string with an
/// empty file system (no list, no environment). Returns the run; its history must be empty.
pub fn run_reference(flat: &str) -> Run {
    let mut w = World::empty();
    w.mkdir_p("/w");
    w.cwd = "/w".into();
    w.list = Some(vec![]);
    w.entry = Entry::StringSearch {
        text: flat.to_string(),
    };
    w.budget = 16;
    run_world(&w)
}
