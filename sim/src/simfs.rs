//! In-memory file system + environment standing in for `std::fs` / `std::env` behind the seam
//! of `oq3_source_file` (hook H1). Single-threaded, no real clock, no real I/O. The logical
//! clock of a run is the sequence number of seam calls.

use crate::world::{Fault, Node, World};
use oq3_source_file::verif_seam::SimEnv;
use std::cell::RefCell;
use std::collections::BTreeMap;
use std::ffi::OsString;
use std::io;
use std::path::{Component, Path, PathBuf};

pub const ENOENT: i32 = 2;
pub const EIO: i32 = 5;
pub const EACCES: i32 = 13;
pub const ENOTDIR: i32 = 20;
pub const EISDIR: i32 = 21;
pub const EINVAL: i32 = 22;
pub const ENAMETOOLONG: i32 = 36;
pub const ELOOP: i32 = 40;
pub const ESTALE: i32 = 116;

#[derive(Clone, Copy, Debug, PartialEq, Eq, PartialOrd, Ord)]
pub enum Op {
    Env,
    IsFile,
    Read,
    Canon,
}

impl Op {
    pub fn name(&self) -> &'static str {
        match self {
            Op::Env => "env",
            Op::IsFile => "is_file",
            Op::Read => "read",
            Op::Canon => "canonicalize",
        }
    }
}

#[derive(Clone, Debug, PartialEq)]
pub enum Out {
    Bool(bool),
    Text(String),
    Path(String),
    Err { kind: String, errno: Option<i32> },
    Env(Option<String>),
}

impl Out {
    /// Coarse class used for "history shape" statistics.
    pub fn class(&self) -> String {
        match self {
            Out::Bool(b) => b.to_string(),
            Out::Text(_) => "ok".into(),
            Out::Path(_) => "ok".into(),
            Out::Err { kind, .. } => kind.clone(),
            Out::Env(Some(_)) => "set".into(),
            Out::Env(None) => "unset".into(),
        }
    }
}

/// One seam call as recorded in the history of a run.
#[derive(Clone, Debug, PartialEq)]
pub struct Call {
    pub seq: usize,
    pub op: Op,
    /// the argument exactly as the code under test passed it
    pub path: String,
    pub out: Out,
    /// ground truth at the time of the call: the absolute normalised path the argument resolves
    /// to in the simulated tree (None if it does not resolve). Not visible to the code under test.
    pub resolved: Option<String>,
    /// fault kinds that fired while serving this call
    pub fired: Vec<&'static str>,
}

pub struct SimState {
    pub nodes: BTreeMap<String, Node>,
    pub cwd: String,
    pub env: Option<OsString>,
    pub faults: Vec<Fault>,
    pub history: Vec<Call>,
    pub budget: usize,
}

/// Payload of the unwind that stops a run whose seam-call budget is exhausted.
pub struct BudgetExceeded;

pub struct Sim(pub RefCell<SimState>);

fn os_err(code: i32) -> io::Error {
    io::Error::from_raw_os_error(code)
}

fn join(parts: &[String]) -> String {
    if parts.is_empty() {
        "/".to_string()
    } else {
        format!("/{}", parts.join("/"))
    }
}

/// Resolve `path` in `nodes` the way the kernel does: relative paths start at `cwd`; every
/// component that is traversed, including the one in front of a `..`, must exist and be a
/// directory; symbolic links are followed wherever they occur (at most 40 of them, then ELOOP),
/// a relative target starting at the directory that holds the link, so that `..` after a link to
/// a directory leads to the parent of the *target*; a trailing slash requires a directory; the
/// empty path is ENOENT. The result is the physical path (no links, no `.`/`..`), which is also
/// what `canonicalize` returns.
pub fn walk(nodes: &BTreeMap<String, Node>, cwd: &str, path: &Path) -> Result<String, i32> {
    walk_links(nodes, cwd, path).0
}

/// `walk`, and the number of symbolic links that were followed on the way (also on failure).
pub fn walk_links(nodes: &BTreeMap<String, Node>, cwd: &str, path: &Path) -> (Result<String, i32>, usize) {
    let mut links_followed = 0usize;
    let r = walk_inner(nodes, cwd, path, &mut links_followed);
    (r, links_followed)
}

fn walk_inner(nodes: &BTreeMap<String, Node>, cwd: &str, path: &Path, links_followed: &mut usize) -> Result<String, i32> {
    let raw = match path.to_str() {
        Some(s) => s,
        None => return Err(ENOENT),
    };
    if raw.is_empty() {
        return Err(ENOENT);
    }
    if raw.contains('\0') {
        return Err(EINVAL);
    }
    if raw.len() >= 4096 {
        return Err(ENAMETOOLONG);
    }
    let abs: PathBuf = if path.is_absolute() {
        path.to_path_buf()
    } else {
        Path::new(cwd).join(path)
    };
    let trailing_slash = raw.len() > 1 && raw.ends_with('/');
    // `x/.` also requires `x` to be a directory
    let trailing_dot = raw.ends_with("/.") || raw == ".";
    fn parts(p: &Path) -> Result<Vec<String>, i32> {
        // `Path::components` drops `.` and repeated slashes but keeps `..`.
        let mut v = vec![];
        for c in p.components() {
            match c {
                Component::RootDir | Component::CurDir => {}
                Component::Prefix(_) => return Err(ENOENT),
                Component::ParentDir => v.push("..".to_string()),
                Component::Normal(name) => v.push(name.to_str().ok_or(ENOENT)?.to_string()),
            }
        }
        Ok(v)
    }
    let mut pending: std::collections::VecDeque<String> = parts(&abs)?.into();
    let mut cur: Vec<String> = Vec::new();
    while let Some(c) = pending.pop_front() {
        match nodes.get(&join(&cur)) {
            Some(Node::Dir) => {}
            Some(Node::File(_)) => return Err(ENOTDIR),
            // `cur` never ends in a link (links are replaced by their target as they are met)
            Some(Node::Link(_)) | None => return Err(ENOENT),
        }
        if c == ".." {
            cur.pop();
            continue;
        }
        if c.len() > 255 {
            return Err(ENAMETOOLONG);
        }
        cur.push(c);
        if let Some(Node::Link(target)) = nodes.get(&join(&cur)) {
            *links_followed += 1;
            if *links_followed > 40 {
                return Err(ELOOP);
            }
            if target.is_empty() {
                return Err(ENOENT);
            }
            cur.pop();
            if target.starts_with('/') {
                cur.clear();
            }
            for x in parts(Path::new(target))?.into_iter().rev() {
                pending.push_front(x);
            }
        }
    }
    let p = join(&cur);
    match nodes.get(&p) {
        None | Some(Node::Link(_)) => Err(ENOENT),
        Some(Node::File(_)) if trailing_slash || trailing_dot => Err(ENOTDIR),
        Some(_) => Ok(p),
    }
}

/// Apply a state-changing fault (`Remove` / `Put`) to a node map. Returns the kind if it had an
/// effect. Shared by the simulator and by the model (which reconstructs the tree as it was at a
/// given seam call).
pub fn apply_state_fault(nodes: &mut BTreeMap<String, Node>, f: &Fault) -> Option<&'static str> {
    match f {
        Fault::Remove { path, .. } => {
            let prefix = format!("{}/", path.trim_end_matches('/'));
            let keys: Vec<String> = nodes
                .keys()
                .filter(|k| **k == *path || k.starts_with(&prefix))
                .cloned()
                .collect();
            if !keys.is_empty() && path != "/" {
                for k in keys {
                    nodes.remove(&k);
                }
                return Some("remove");
            }
            None
        }
        Fault::Put { path, bytes, .. } => {
            // the parent directory is resolved through symbolic links first, if it resolves
            let path: &String = &match path.rfind('/') {
                Some(i) if i > 0 => match walk(nodes, "/", Path::new(&path[..i])) {
                    Ok(parent) => format!("{}/{}", parent.trim_end_matches('/'), &path[i + 1..]),
                    Err(_) => path.clone(),
                },
                _ => path.clone(),
            };
            // parents are created on demand; a directory of that name is replaced
            let mut cur = String::new();
            let parts: Vec<&str> = path.split('/').filter(|p| !p.is_empty()).collect();
            for part in &parts[..parts.len().saturating_sub(1)] {
                cur.push('/');
                cur.push_str(part);
                nodes.entry(cur.clone()).or_insert(Node::Dir);
            }
            let prefix = format!("{}/", path);
            let below: Vec<String> = nodes.keys().filter(|k| k.starts_with(&prefix)).cloned().collect();
            for k in below {
                nodes.remove(&k);
            }
            nodes.insert(path.clone(), Node::File(bytes.clone()));
            Some("put")
        }
        _ => None,
    }
}

/// The node map as it is when seam call `seq` is served (faults scheduled at `<= seq` applied).
pub fn nodes_at(w: &World, seq: usize) -> BTreeMap<String, Node> {
    let mut nodes = w.nodes.clone();
    let mut state_faults: Vec<(usize, usize)> = w
        .faults
        .iter()
        .enumerate()
        .filter_map(|(i, f)| match f {
            Fault::Remove { at, .. } | Fault::Put { at, .. } if *at <= seq => Some((*at, i)),
            _ => None,
        })
        .collect();
    state_faults.sort();
    for (_, i) in state_faults {
        apply_state_fault(&mut nodes, &w.faults[i]);
    }
    nodes
}

impl SimState {
    pub fn from_world(w: &World) -> SimState {
        SimState {
            nodes: w.nodes.clone(),
            cwd: w.cwd.clone(),
            env: w.env.clone().map(OsString::from),
            faults: w.faults.clone(),
            history: vec![],
            budget: w.budget,
        }
    }

    fn walk(&self, path: &Path) -> Result<String, i32> {
        walk(&self.nodes, &self.cwd, path)
    }

    /// `walk`, noting in `fired` (the per-call record of what the simulated environment did)
    /// that symbolic links were followed.
    fn walk_noting(&self, path: &Path, fired: &mut Vec<&'static str>) -> Result<String, i32> {
        let (r, links) = walk_links(&self.nodes, &self.cwd, path);
        if links > 0 {
            fired.push(if r.is_ok() { "symlink_followed" } else { "symlink_followed_to_nothing" });
        }
        r
    }

    /// Start serving a seam call: enforce the budget and apply the state-changing dynamic
    /// faults scheduled for this call index. Returns (seq, fired).
    fn tick(&mut self) -> (usize, Vec<&'static str>) {
        let seq = self.history.len();
        if seq >= self.budget {
            std::panic::panic_any(BudgetExceeded);
        }
        let mut fired = vec![];
        let env_change: Option<Option<String>> = self.faults.iter().find_map(|f| match f {
            Fault::EnvAt { at, value } if *at == seq => Some(value.clone()),
            _ => None,
        });
        if let Some(v) = env_change {
            self.env = v.map(OsString::from);
            fired.push("env_at");
        }
        let due: Vec<Fault> = self
            .faults
            .iter()
            .filter(|f| matches!(f, Fault::Remove { at, .. } | Fault::Put { at, .. } if *at == seq))
            .cloned()
            .collect();
        for f in due {
            if let Some(k) = apply_state_fault(&mut self.nodes, &f) {
                fired.push(k);
            }
        }
        (seq, fired)
    }

    fn log(
        &mut self,
        seq: usize,
        op: Op,
        path: &Path,
        out: Out,
        resolved: Option<String>,
        fired: Vec<&'static str>,
    ) {
        self.history.push(Call {
            seq,
            op,
            path: path.to_string_lossy().into_owned(),
            out,
            resolved,
            fired,
        });
    }
}

fn err_out(e: &io::Error) -> Out {
    Out::Err {
        kind: format!("{:?}", e.kind()),
        errno: e.raw_os_error(),
    }
}

impl SimEnv for Sim {
    fn is_file(&self, path: &Path) -> bool {
        let mut s = self.0.borrow_mut();
        let (seq, mut fired) = s.tick();
        let resolved = s.walk_noting(path, &mut fired).ok();
        let mut r = match &resolved {
            Some(p) => matches!(s.nodes.get(p), Some(Node::File(_))),
            None => false,
        };
        if let Some(p) = &resolved {
            for f in &s.faults {
                if let Fault::ReadErr {
                    path: fp,
                    probe: Some(b),
                    ..
                } = f
                {
                    if fp == p && r != *b {
                        r = *b;
                        fired.push("probe_override");
                    }
                }
            }
        }
        if r && s.faults.iter().any(|f| matches!(f, Fault::ProbeFalseAt { at } if *at == seq)) {
            r = false;
            fired.push("probe_false_at");
        }
        s.log(seq, Op::IsFile, path, Out::Bool(r), resolved, fired);
        r
    }

    fn read_to_string(&self, path: &Path) -> io::Result<String> {
        let mut s = self.0.borrow_mut();
        let (seq, mut fired) = s.tick();
        let walked = s.walk_noting(path, &mut fired);
        let resolved = walked.clone().ok();
        let res: io::Result<String> = (|| {
            let p = walked.map_err(os_err)?;
            for f in &s.faults {
                match f {
                    Fault::ReadErrAt { at, errno } if *at == seq => {
                        fired.push("read_err_at");
                        return Err(os_err(*errno));
                    }
                    Fault::ReadErr { path: fp, errno, .. } if *fp == p => {
                        fired.push(f.kind());
                        return Err(os_err(*errno));
                    }
                    _ => {}
                }
            }
            let mut bytes = match s.nodes.get(&p) {
                Some(Node::Dir) => return Err(os_err(EISDIR)),
                Some(Node::File(b)) => b.clone(),
                Some(Node::Link(_)) | None => return Err(os_err(ENOENT)),
            };
            for f in &s.faults {
                match f {
                    Fault::ShortReadAt { at, keep } if *at == seq && *keep < bytes.len() => {
                        bytes.truncate(*keep);
                        fired.push("short_read_at");
                    }
                    Fault::FlipAt { at, offset, byte }
                        if *at == seq && *offset < bytes.len() && bytes[*offset] != *byte =>
                    {
                        bytes[*offset] = *byte;
                        fired.push("flip_at");
                    }
                    Fault::ZeroTailAt { at, from } if *at == seq && *from < bytes.len() => {
                        for b in bytes[*from..].iter_mut() {
                            *b = 0;
                        }
                        fired.push("zero_tail_at");
                    }
                    _ => {}
                }
            }
            String::from_utf8(bytes).map_err(|_| {
                io::Error::new(
                    io::ErrorKind::InvalidData,
                    "stream did not contain valid UTF-8",
                )
            })
        })();
        let out = match &res {
            Ok(t) => Out::Text(t.clone()),
            Err(e) => err_out(e),
        };
        s.log(seq, Op::Read, path, out, resolved, fired);
        res
    }

    fn canonicalize(&self, path: &Path) -> io::Result<PathBuf> {
        let mut s = self.0.borrow_mut();
        let (seq, fired) = s.tick();
        let walked = s.walk(path);
        let resolved = walked.clone().ok();
        let res = walked.map(PathBuf::from).map_err(os_err);
        let out = match &res {
            Ok(p) => Out::Path(p.to_string_lossy().into_owned()),
            Err(e) => err_out(e),
        };
        s.log(seq, Op::Canon, path, out, resolved, fired);
        res
    }

    fn var_os(&self, key: &str) -> Option<OsString> {
        let mut s = self.0.borrow_mut();
        let (seq, fired) = s.tick();
        let r = if key == "QASM3_PATH" {
            s.env.clone()
        } else {
            None
        };
        let out = Out::Env(r.as_ref().map(|v| v.to_string_lossy().into_owned()));
        s.log(seq, Op::Env, Path::new(key), out, None, fired);
        r
    }
}
