//! Response-driven reference model of include handling (M-resolve, M-expand, M-flat of
//! DESIGN.md §4.3). It is evaluated over the recorded history of a run, so it stays exact under
//! dynamic faults: whatever the simulated file system answered is what the model reasons from.

use crate::exec::SynDiag;
use crate::simfs::{self, Call, Op, Out};
use crate::world::{Entry, Node, World};
use oq3_syntax::ast::{self as synast, AstNode};
use oq3_syntax::SyntaxKind;
use std::collections::BTreeMap;
use std::panic::{catch_unwind, AssertUnwindSafe};
use std::path::{Path, PathBuf};
use std::rc::Rc;

/// A top-level statement of a text, as far as the model cares.
#[derive(Clone, Debug)]
pub struct TopStmt {
    pub kind: SyntaxKind,
    pub start: usize,
    pub end: usize,
    /// for `include` statements: (range of the path literal, evaluated path) when present
    pub include: Option<IncSite>,
}

#[derive(Clone, Debug)]
pub struct IncSite {
    pub path_range: Option<(usize, usize)>,
    pub value: Option<String>,
}

/// What the model learns about one delivered text by parsing it alone (pure `oq3_syntax`, no
/// include handling) and lexing it (pure `oq3_parser::LexedStr`).
#[derive(Clone, Debug)]
pub struct FileFacts {
    pub syn: Vec<SynDiag>,
    pub have_parse: bool,
    /// lexical diagnostics: (token start, token end, message)
    pub lex: Vec<(usize, usize, String)>,
    pub has_error_node: bool,
    pub top: Vec<TopStmt>,
    /// ranges of `include` statements below the top level
    pub nested_includes: Vec<(usize, usize)>,
    /// ranges of every node of the tree (sorted), for S2
    pub node_ranges: Vec<(usize, usize)>,
    /// the tree does not spell the text it was parsed from: (length of the tree's text, length
    /// of the text). Nothing else is derived from such a tree.
    pub tree_mismatch: Option<(usize, usize)>,
    /// diagnostics of the plain entry point `SourceFile::parse` (parser + validation, no lexical
    /// gate) when they differ from those of the lex-checked parse although the lexer found nothing
    pub plain_parse_differs: Option<(usize, usize)>,
    /// first diagnostic of the plain entry point, on a text with lexical errors, whose span is
    /// not valid for the text
    pub plain_parse_bad_span: Option<(usize, usize, String)>,
}

pub fn analyze_text(text: &str) -> Result<FileFacts, String> {
    catch_unwind(AssertUnwindSafe(|| {
        let lexed = oq3_parser::LexedStr::new(text);
        let lex: Vec<(usize, usize, String)> = lexed
            .errors()
            .map(|(i, msg)| {
                let r = lexed.text_range(i);
                (r.start, r.end, msg.to_string())
            })
            .collect();
        let parsed = synast::SourceFile::parse_check_lex(text);
        let syn: Vec<SynDiag> = parsed
            .errors()
            .iter()
            .map(|e| SynDiag {
                msg: e.to_string(),
                start: e.range().start().into(),
                end: e.range().end().into(),
            })
            .collect();
        let have_parse = parsed.have_parse();
        let mut facts = FileFacts {
            syn,
            have_parse,
            lex,
            has_error_node: false,
            top: vec![],
            nested_includes: vec![],
            node_ranges: vec![],
            tree_mismatch: None,
            plain_parse_differs: None,
            plain_parse_bad_span: None,
        };
        if !have_parse {
            // The pipeline stops here, but the plain entry point `SourceFile::parse` goes on to
            // parse and reports the lexical diagnostics as well: its spans must be valid for this
            // text too (S1). A panic of that parse on lexically broken text is not this check's
            // subject and is ignored.
            let t = text.to_string();
            if let Ok(errs) = catch_unwind(AssertUnwindSafe(|| {
                synast::SourceFile::parse(&t)
                    .errors()
                    .iter()
                    .map(|e| (usize::from(e.range().start()), usize::from(e.range().end()), e.to_string()))
                    .collect::<Vec<_>>()
            })) {
                facts.plain_parse_bad_span = errs.into_iter().find(|(s, e, _)| {
                    !(s <= e && *e <= text.len() && text.is_char_boundary(*s) && text.is_char_boundary(*e))
                });
            }
            return facts;
        }
        // the lexer found nothing: "then all its diagnostics are syntactic", i.e. what the parser
        // and the validation pass report, which is what the plain entry point returns
        let plain: Vec<(usize, usize, String)> = synast::SourceFile::parse(text)
            .errors()
            .iter()
            .map(|e| (e.range().start().into(), e.range().end().into(), e.to_string()))
            .collect();
        let checked: Vec<(usize, usize, String)> = facts.syn.iter().map(|d| (d.start, d.end, d.msg.clone())).collect();
        if plain != checked {
            facts.plain_parse_differs = Some((plain.len(), checked.len()));
        }
        let root = parsed.syntax_node();
        let tree_len: usize = root.text_range().len().into();
        if tree_len != text.len() || root.text() != text {
            facts.tree_mismatch = Some((tree_len, text.len()));
            return facts;
        }
        facts.has_error_node = root
            .descendants_with_tokens()
            .any(|e| e.kind() == SyntaxKind::ERROR);
        let mut top_include_starts = vec![];
        for st in parsed.tree().statements() {
            let r = st.syntax().text_range();
            let (s, e): (usize, usize) = (r.start().into(), r.end().into());
            let include = if let synast::Stmt::Include(inc) = &st {
                top_include_starts.push(s);
                let file = inc.file();
                Some(IncSite {
                    path_range: file.as_ref().map(|f| {
                        let fr = f.syntax().text_range();
                        (fr.start().into(), fr.end().into())
                    }),
                    value: file.and_then(|f| f.to_string()),
                })
            } else {
                None
            };
            facts.top.push(TopStmt {
                kind: st.syntax().kind(),
                start: s,
                end: e,
                include,
            });
        }
        for n in root.descendants() {
            let r = n.text_range();
            let (s, e): (usize, usize) = (r.start().into(), r.end().into());
            facts.node_ranges.push((s, e));
            // the body of a `cal` block or `defcal` is written in the calibration grammar, not in
            // OpenQASM (the analyser answers NotImplementedError for the whole statement): what
            // looks like an include in there is not one
            let in_calibration = n
                .ancestors()
                .any(|a| matches!(a.kind(), SyntaxKind::CAL | SyntaxKind::DEF_CAL));
            // likewise an include inside a block that is an *operand of an expression*
            // (`CX a, b/{ include "x"; }` — the parser lets a block stand where an expression is
            // expected): no construct of the language opens a scope there, so this is not "an
            // include below global scope" in C18's sense but a matter of what the parser accepts
            let in_operand = n
                .ancestors()
                .skip(1)
                .any(|a| a.kind() != SyntaxKind::BLOCK_EXPR && synast::Expr::can_cast(a.kind()));
            if n.kind() == SyntaxKind::INCLUDE && !top_include_starts.contains(&s) && !in_calibration && !in_operand {
                facts.nested_includes.push((s, e));
            }
        }
        facts.node_ranges.sort();
        facts.node_ranges.dedup();
        facts
    }))
    .map_err(|p| crate::exec::panic_message(p.as_ref()))
}

/// One file instance of the expected include tree. Index 0 is the main source.
#[derive(Clone, Debug)]
pub struct Inst {
    pub parent: Option<usize>,
    pub depth: usize,
    /// start of the include statement in the parent's text
    pub site_stmt_start: usize,
    /// range of the path literal of the include statement in the parent's text
    pub site_path_range: (usize, usize),
    pub spelled: String,
    /// the path the model expects to be read
    pub target: String,
    /// delivered text; None = the include could not be read (or was refused as recursive)
    pub text: Option<String>,
    /// io::ErrorKind (Debug rendering) of a failed read, when the history has one
    pub io_kind: Option<String>,
    /// expected diagnostic kind of a failed include; None = any read-failure kind
    pub fail_kind: Option<String>,
    /// the include was refused because the file is already being included (cycle)
    pub refused_recursive: bool,
    /// acceptable values of the path tag of this file's lists
    pub tags_ok: Vec<String>,
    /// ground-truth absolute path of the file that was read
    pub resolved: Option<String>,
    pub children: Vec<usize>,
    pub facts: Option<Rc<FileFacts>>,
    /// how the file was found: index of the search directory that answered true (None: absolute
    /// path or as-given fallback)
    pub found_in_dir: Option<usize>,
}

#[derive(Clone, Debug)]
pub struct Seg {
    pub flat_start: usize,
    pub flat_end: usize,
    pub inst: usize,
    pub file_start: usize,
}

pub struct Model<'a> {
    pub w: &'a World,
    full: &'a [Call],
    calls: Vec<&'a Call>,
    cur: usize,
    canon_ok: BTreeMap<String, Vec<String>>,
    pub insts: Vec<Inst>,
    pub flat: String,
    pub segs: Vec<Seg>,
    /// top-level statements (kind, text) in expansion order, for guard R0
    pub expected_stmts: Vec<(SyntaxKind, String)>,
    /// R2 discrepancies, in order of discovery
    pub r2: Vec<(String, String)>,
    /// the history ended while the model still expected calls
    pub truncated: bool,
    pub unusable_include: bool,
    /// include statements whose path cannot be evaluated: (instance, statement start, end)
    pub unusable_sites: Vec<(usize, usize, usize)>,
    pub parser_panic: Option<String>,
    /// policy: the front end reads a file before it refuses it as recursive
    pub read_before_refusal: bool,
    /// the list the run got the last time it consulted QASM3_PATH (None: not consulted so far)
    pub env_dirs: Option<Vec<PathBuf>>,
    /// a delivered text whose tree does not spell it: (target, tree length, text length)
    pub tree_mismatch: Option<(String, usize, usize)>,
    pub any_syntax: bool,
    pub total_syntax_errors: usize,
    pub std_included_top: bool,
    pub env_used: bool,
    pub main_unreadable: bool,
    cache: BTreeMap<String, Rc<FileFacts>>,
    chain: Vec<String>,
    static_world: bool,
    pub cycle_refusals: usize,
    /// decisions at ambiguous sites (true = the next read belongs to this site), see `expand`
    pub choices: Vec<bool>,
    pub ambiguous_sites: usize,
}

pub fn read_failure_kind(io_kind: &str) -> &'static str {
    match io_kind {
        "NotFound" => "FileNotFound",
        "PermissionDenied" => "PermissionDenied",
        _ => "IOError",
    }
}

impl<'a> Model<'a> {
    pub fn new(w: &'a World, history: &'a [Call]) -> Model<'a> {
        let mut canon_ok: BTreeMap<String, Vec<String>> = BTreeMap::new();
        for c in history {
            if c.op == Op::Canon {
                if let Out::Path(p) = &c.out {
                    canon_ok.entry(c.path.clone()).or_default().push(p.clone());
                }
            }
        }
        let static_world = !w.faults.iter().any(|f| {
            matches!(
                f,
                crate::world::Fault::Remove { .. } | crate::world::Fault::Put { .. }
            )
        });
        Model {
            w,
            full: history,
            calls: history.iter().filter(|c| c.op != Op::Canon).collect(),
            cur: 0,
            canon_ok,
            insts: vec![],
            flat: String::new(),
            segs: vec![],
            expected_stmts: vec![],
            r2: vec![],
            truncated: false,
            unusable_include: false,
            unusable_sites: vec![],
            parser_panic: None,
            read_before_refusal: false,
            env_dirs: None,
            tree_mismatch: None,
            any_syntax: false,
            total_syntax_errors: 0,
            std_included_top: false,
            env_used: false,
            main_unreadable: false,
            cache: BTreeMap::new(),
            chain: vec![],
            static_world,
            cycle_refusals: 0,
            choices: vec![],
            ambiguous_sites: 0,
        }
    }

    pub fn facts_of(&mut self, text: &str) -> Result<Rc<FileFacts>, String> {
        if let Some(f) = self.cache.get(text) {
            return Ok(f.clone());
        }
        let f = Rc::new(analyze_text(text)?);
        self.cache.insert(text.to_string(), f.clone());
        Ok(f)
    }

    fn peek(&self) -> Option<&'a Call> {
        self.calls.get(self.cur).copied()
    }

    fn r2_err(&mut self, class: &str, detail: String) {
        if std::env::var("OQ3SIM_DEBUG").is_ok() {
            eprintln!("R2 {} {} chain={:?} cur={} insts={:#?}", class, detail, self.chain, self.cur, self.insts.iter().map(|i| (i.parent, i.target.clone(), i.text.is_some(), i.refused_recursive)).collect::<Vec<_>>());
        }
        self.r2.push((class.to_string(), detail));
    }

    /// All non-canonicalize calls of the history were explained by the model.
    pub fn history_fully_explained(&self) -> bool {
        self.cur == self.calls.len()
    }

    pub fn unexplained_call(&self) -> Option<&'a Call> {
        self.peek()
    }

    /// M-resolve: consume the calls that resolving `spelled` must make; return
    /// (target path, index of the directory that answered true).
    fn resolve(&mut self, spelled: &str) -> (String, Option<usize>) {
        let p = Path::new(spelled);
        if p.is_absolute() {
            return (spelled.to_string(), None);
        }
        let dirs: Vec<PathBuf> = match &self.w.list {
            Some(l) => l.iter().map(PathBuf::from).collect(),
            None => match self.peek() {
                Some(c) if c.op == Op::Env => {
                    self.cur += 1;
                    self.env_used = true;
                    if c.path != "QASM3_PATH" {
                        self.r2_err("env-name", format!("environment variable {} consulted", c.path));
                    }
                    let dirs: Vec<PathBuf> = match &c.out {
                        Out::Env(Some(v)) => std::env::split_paths(v).collect(),
                        _ => vec![],
                    };
                    self.env_dirs = Some(dirs.clone());
                    dirs
                }
                // C18 does not say *when* the variable is read: a front end that reads it once
                // per parse and keeps the list is as good as one that reads it for every include.
                // If this run has consulted it before, the value it got then is reused.
                _ if self.env_dirs.is_some() => self.env_dirs.clone().unwrap(),
                None => {
                    self.truncated = true;
                    vec![]
                }
                Some(c) => {
                    self.r2_err(
                        "env-not-consulted",
                        format!(
                            "no search list was given, expected a lookup of QASM3_PATH before resolving `{}`, found call #{} {} {}",
                            spelled, c.seq, c.op.name(), c.path
                        ),
                    );
                    vec![]
                }
            },
        };
        for (i, d) in dirs.iter().enumerate() {
            let cand = d.join(p).to_string_lossy().into_owned();
            match self.peek() {
                Some(c) if c.op == Op::IsFile && c.path == cand => {
                    self.cur += 1;
                    if c.out == Out::Bool(true) {
                        return (cand, Some(i));
                    }
                }
                None => {
                    self.truncated = true;
                    return (spelled.to_string(), None);
                }
                Some(c) => {
                    self.r2_err(
                        "probe-order",
                        format!(
                            "resolving `{}`: expected existence probe of `{}` (search directory #{}), found call #{} {} `{}`",
                            spelled, cand, i, c.seq, c.op.name(), c.path
                        ),
                    );
                    return (spelled.to_string(), None);
                }
            }
        }
        (spelled.to_string(), None)
    }

    /// Ground truth: the absolute path `path` resolves to in the simulated tree *at the time
    /// the front end decides about this include* (the tree changes under `remove`/`put`
    /// faults). The decision time is the first `canonicalize` of the target after the last
    /// call the model has consumed, if there is one before the next consumed call; otherwise
    /// the call right after the last consumed one.
    fn ground_truth(&self, path: &str) -> Option<String> {
        if self.static_world {
            return simfs::walk(&self.w.nodes, &self.w.cwd, Path::new(path)).ok();
        }
        let last_seq: Option<usize> = if self.cur == 0 { None } else { Some(self.calls[self.cur - 1].seq) };
        let next_seq: usize = self.peek().map(|c| c.seq).unwrap_or(usize::MAX);
        let from = last_seq.map(|s| s + 1).unwrap_or(0);
        let decision = self
            .full
            .iter()
            .filter(|c| c.seq >= from && c.seq < next_seq)
            .find(|c| c.op == Op::Canon && c.path == path)
            .map(|c| c.seq)
            .unwrap_or(from);
        let nodes = simfs::nodes_at(self.w, decision);
        simfs::walk(&nodes, &self.w.cwd, Path::new(path)).ok()
    }

    /// Build the model of the whole run. Returns false when nothing can be judged because the
    /// main source itself was not delivered.
    pub fn build(&mut self) -> bool {
        let main_text: String = match &self.w.entry {
            Entry::StringSearch { text } | Entry::StringPlain { text } => {
                self.insts.push(Inst {
                    parent: None,
                    depth: 0,
                    site_stmt_start: 0,
                    site_path_range: (0, 0),
                    spelled: String::new(),
                    target: "no file".into(),
                    text: Some(text.clone()),
                    io_kind: None,
                    fail_kind: None,
                    refused_recursive: false,
                    tags_ok: vec!["no file".into()],
                    resolved: None,
                    children: vec![],
                    facts: None,
                    found_in_dir: None,
                });
                text.clone()
            }
            Entry::FileSearch { path } | Entry::FilePlain { path } => {
                let (target, found) = self.resolve(path);
                let mut inst = Inst {
                    parent: None,
                    depth: 0,
                    site_stmt_start: 0,
                    site_path_range: (0, 0),
                    spelled: path.clone(),
                    target: target.clone(),
                    text: None,
                    io_kind: None,
                    fail_kind: None,
                    refused_recursive: false,
                    tags_ok: vec![target.clone()],
                    resolved: None,
                    children: vec![],
                    facts: None,
                    found_in_dir: found,
                };
                let text = match self.peek() {
                    Some(c) if c.op == Op::Read && c.path == target => {
                        self.cur += 1;
                        inst.resolved = c.resolved.clone();
                        match &c.out {
                            Out::Text(t) => Some(t.clone()),
                            _ => None,
                        }
                    }
                    None => {
                        self.truncated = true;
                        None
                    }
                    Some(c) => {
                        self.r2_err(
                            "main-read",
                            format!(
                                "expected read of main file `{}`, found call #{} {} `{}`",
                                target, c.seq, c.op.name(), c.path
                            ),
                        );
                        None
                    }
                };
                if let Some(r) = &inst.resolved {
                    inst.tags_ok.push(r.clone());
                }
                if let Some(v) = self.canon_ok.get(&target) {
                    inst.tags_ok.extend(v.iter().cloned());
                }
                inst.text = text.clone();
                self.insts.push(inst);
                match text {
                    Some(t) => t,
                    None => {
                        self.main_unreadable = true;
                        return false;
                    }
                }
            }
        };
        if let Some(r) = self.insts[0].resolved.clone() {
            self.chain.push(r);
        }
        self.expand(0, &main_text);
        true
    }

    fn expand(&mut self, me: usize, text: &str) {
        let facts = match self.facts_of(text) {
            Ok(f) => f,
            Err(msg) => {
                self.parser_panic = Some(msg);
                return;
            }
        };
        self.insts[me].facts = Some(facts.clone());
        if let Some((a, b)) = facts.tree_mismatch {
            if self.tree_mismatch.is_none() {
                self.tree_mismatch = Some((self.insts[me].target.clone(), a, b));
            }
            return;
        }
        if !facts.syn.is_empty() {
            self.any_syntax = true;
            self.total_syntax_errors += facts.syn.len();
        }
        if !facts.have_parse {
            let fs = self.flat.len();
            self.flat.push_str(text);
            self.segs.push(Seg {
                flat_start: fs,
                flat_end: self.flat.len(),
                inst: me,
                file_start: 0,
            });
            return;
        }
        let mut pos = 0usize;
        for st in &facts.top {
            if self.parser_panic.is_some() || self.tree_mismatch.is_some() {
                return;
            }
            let site = match &st.include {
                None => {
                    self.expected_stmts
                        .push((st.kind, text[st.start..st.end].to_string()));
                    continue;
                }
                Some(site) => site,
            };
            let spelled = match &site.value {
                None => {
                    // An include statement without a usable path: nothing can be resolved. The
                    // expected behaviour is a diagnostic on the statement and no expansion, so
                    // the statement contributes nothing to the flattened text.
                    self.unusable_include = true;
                    self.unusable_sites.push((me, st.start, st.end));
                    let fs = self.flat.len();
                    self.flat.push_str(&text[pos..st.start]);
                    self.segs.push(Seg {
                        flat_start: fs,
                        flat_end: self.flat.len(),
                        inst: me,
                        file_start: pos,
                    });
                    pos = st.end;
                    self.flat.push(' ');
                    continue;
                }
                Some(v) => v.clone(),
            };
            if spelled == "stdgates.inc" {
                self.std_included_top = true;
                self.expected_stmts
                    .push((st.kind, text[st.start..st.end].to_string()));
                continue;
            }
            // text in front of the include statement
            let fs = self.flat.len();
            self.flat.push_str(&text[pos..st.start]);
            self.segs.push(Seg {
                flat_start: fs,
                flat_end: self.flat.len(),
                inst: me,
                file_start: pos,
            });
            pos = st.end;

            let (target, found) = self.resolve(&spelled);
            let child = self.insts.len();
            self.insts.push(Inst {
                parent: Some(me),
                depth: self.insts[me].depth + 1,
                site_stmt_start: st.start,
                site_path_range: site.path_range.unwrap_or((st.start, st.end)),
                spelled: spelled.clone(),
                target: target.clone(),
                text: None,
                io_kind: None,
                fail_kind: None,
                refused_recursive: false,
                tags_ok: vec![target.clone()],
                resolved: None,
                children: vec![],
                facts: None,
                found_in_dir: found,
            });
            self.insts[me].children.push(child);
            if let Some(v) = self.canon_ok.get(&target) {
                let v = v.clone();
                self.insts[child].tags_ok.extend(v);
            }
            if self.truncated {
                return;
            }
            let next = self.peek();
            // Is the target a file whose inclusion is already in progress? (decided from the
            // simulated tree itself, not from the history: a later include of the same path
            // would otherwise be mistaken for this one)
            let truth = self.ground_truth(&target);
            // A path that names nothing (e.g. `a.inc/`) can still be recognised as an open
            // file by comparing paths component-wise, which ignores a trailing slash and `.`
            // components; a front end that does so refuses without reading. Predicting this
            // keeps the walk in step; if the prediction is wrong the search over `choices` in
            // `oracle::judge` still finds a consistent explanation.
            let spelled_like_open = truth.is_none()
                && self.chain.iter().any(|c| Path::new(c) == Path::new(&target));
            let recursive = truth.as_ref().is_some_and(|t| self.chain.contains(t)) || spelled_like_open;
            let next_reads_target = matches!(next, Some(c) if c.op == Op::Read && c.path == target);
            // A target that names nothing in the tree may be read (the read fails) or refused
            // without a read; if the next call happens to be a read of that very path it may
            // belong to this site or to a later include of the same path. The history alone
            // cannot tell: the caller tries the alternatives (`choices`) and keeps an
            // explanation that is consistent with everything observed.
            let consume = if !recursive && truth.is_none() && next_reads_target {
                self.ambiguous_sites += 1;
                let c = self.choices.get(self.ambiguous_sites - 1).cloned().unwrap_or(true);
                c
            } else {
                true
            };
            let is_read_of_target = !recursive && next_reads_target && consume;
            if !is_read_of_target {
                // No read of the target. Legal in exactly two situations.
                if recursive {
                    // (a) the file is already being included: refusing to read it again is
                    // the expected behaviour for a cycle. Whether the front end looks at the
                    // file before it refuses is immaterial: a read of the target at this point
                    // is accepted and its result ignored.
                    // That is a policy of the front end, not a per-site decision: the model is
                    // built without it first (what the code does today) and, if that does not
                    // explain the run, once more with `read_before_refusal` (`oracle::judge`).
                    if self.read_before_refusal && next_reads_target {
                        self.cur += 1;
                    }
                    self.insts[child].refused_recursive = true;
                    self.cycle_refusals += 1;
                    if let Some(t) = truth {
                        self.insts[child].tags_ok.push(t);
                    }
                } else if truth.is_none() {
                    // (c) the target does not name anything in the simulated tree at this
                    // moment, so a read could only fail: whether the front end attempts it is
                    // immaterial (it may recognise `a.inc/` as the open file `a.inc` by comparing
                    // paths component-wise, say). The include must still be reported.
                    self.insts[child].fail_kind = None;
                } else if found.is_none() && !Path::new(&spelled).is_absolute() {
                    // (b) no search directory has the file: C18 is silent on whether the
                    // path is then tried as given; not reading it is accepted.
                    self.insts[child].fail_kind = Some("FileNotFound".into());
                } else if next.is_none() {
                    self.truncated = true;
                    return;
                } else {
                    let c = next.unwrap();
                    self.r2_err(
                        "read-target",
                        format!(
                            "include `{}`: expected one read of `{}`, found call #{} {} `{}`",
                            spelled, target, c.seq, c.op.name(), c.path
                        ),
                    );
                }
                self.flat.push(' ');
                continue;
            }
            let c = next.unwrap();
            self.cur += 1;
            self.insts[child].resolved = c.resolved.clone();
            if let Some(r) = &c.resolved {
                self.insts[child].tags_ok.push(r.clone());
            }
            match &c.out {
                Out::Text(t) => {
                    self.insts[child].text = Some(t.clone());
                    self.flat.push('\n');
                    if let Some(r) = &c.resolved {
                        self.chain.push(r.clone());
                    }
                    self.expand(child, t);
                    if c.resolved.is_some() {
                        self.chain.pop();
                    }
                    self.flat.push('\n');
                }
                Out::Err { kind, .. } => {
                    self.insts[child].io_kind = Some(kind.clone());
                    self.insts[child].fail_kind = Some(read_failure_kind(kind).to_string());
                    self.flat.push(' ');
                }
                _ => {}
            }
        }
        let fs = self.flat.len();
        self.flat.push_str(&text[pos..]);
        self.segs.push(Seg {
            flat_start: fs,
            flat_end: self.flat.len(),
            inst: me,
            file_start: pos,
        });
    }

    /// Map a range of the flattened text to (instance, range in that file's text).
    pub fn map_range(&self, start: usize, end: usize) -> Option<(usize, usize, usize)> {
        // prefer a non-empty segment that contains the range; an empty range sitting exactly on
        // a boundary is attributed to the segment it starts in
        let mut best: Option<&Seg> = None;
        for s in &self.segs {
            if start >= s.flat_start && end <= s.flat_end {
                let strictly_inside = start < s.flat_end || s.flat_start == s.flat_end;
                if strictly_inside {
                    best = Some(s);
                    break;
                } else if best.is_none() {
                    best = Some(s);
                }
            }
        }
        best.map(|s| {
            (
                s.inst,
                start - s.flat_start + s.file_start,
                end - s.flat_start + s.file_start,
            )
        })
    }

    /// Instances in depth-first order (the order of the lists in the tree of diagnostics).
    pub fn dfs(&self) -> Vec<usize> {
        fn go(m: &Model, i: usize, out: &mut Vec<usize>) {
            out.push(i);
            for c in &m.insts[i].children {
                go(m, *c, out);
            }
        }
        let mut out = vec![];
        if !self.insts.is_empty() {
            go(self, 0, &mut out);
        }
        out
    }

    /// Pristine-file knowledge of the generator for instance `i`, if its delivered text is
    /// byte-for-byte the stored pristine content.
    pub fn meta_of(&self, i: usize) -> Option<&'a crate::world::FileMeta> {
        let inst = &self.insts[i];
        let text = inst.text.as_ref()?;
        if i == 0 && !self.w.entry.is_file() {
            return self.w.meta.get("");
        }
        let r = inst.resolved.as_ref()?;
        let m = self.w.meta.get(r)?;
        match self.w.nodes.get(r) {
            Some(Node::File(b)) if b.as_slice() == text.as_bytes() => Some(m),
            _ => None,
        }
    }
}

/// The standard gate library of OpenQASM 3 (`stdgates.inc`), written down independently of the
/// table in the code under test: (name, classical parameters, qubits).
pub const STDGATES: &[(&str, usize, usize)] = &[
    ("p", 1, 1),
    ("x", 0, 1),
    ("y", 0, 1),
    ("z", 0, 1),
    ("h", 0, 1),
    ("s", 0, 1),
    ("sdg", 0, 1),
    ("t", 0, 1),
    ("tdg", 0, 1),
    ("sx", 0, 1),
    ("rx", 1, 1),
    ("ry", 1, 1),
    ("rz", 1, 1),
    ("cx", 0, 2),
    ("cy", 0, 2),
    ("cz", 0, 2),
    ("cp", 1, 2),
    ("crx", 1, 2),
    ("cry", 1, 2),
    ("crz", 1, 2),
    ("ch", 0, 2),
    ("swap", 0, 2),
    ("ccx", 0, 3),
    ("cswap", 0, 3),
    ("cu", 4, 2),
    ("CX", 0, 2),
    ("phase", 1, 1),
    ("cphase", 1, 2),
    ("id", 0, 1),
    ("u1", 1, 1),
    ("u2", 2, 1),
    ("u3", 3, 1),
];
