//! Engine E1 driver: seeded search over worlds and fault plans for C18 / C11 / C12.

use oq3sim::exec::{Run, RunResult};
use oq3sim::gen::{self, Profile, Stratum};
use oq3sim::minimise::minimise;
use oq3sim::oracle::{RunInfo, Verdict, Violation};
use oq3sim::prng::{fnv1a, mix, Rng};
use oq3sim::report::{self, Args, Finding, Stats};
use oq3sim::simfs::{Op, Out};
use oq3sim::world::{Node, World};
use serde_json::{json, Value};
use std::path::{Path, PathBuf};
use std::sync::atomic::{AtomicU64, Ordering};
use std::sync::{Arc, Mutex};
use std::time::Instant;

const CHUNK: u64 = 2048;

fn profile_of(property: &str) -> Profile {
    match property {
        "C11" => Profile::Gating,
        "C12" => Profile::Spans,
        _ => Profile::Includes,
    }
}

fn stream_of(property: &str) -> u64 {
    fnv1a(format!("incsim/{}", property).as_bytes())
}

#[derive(Clone)]
struct Found {
    run: u64,
    case: usize,
    world: World,
    violation: Violation,
}

fn world_sample(w: &World, run: u64, case: usize, stratum: Stratum, verdict: &str, r: &Run) -> Value {
    let files: serde_json::Map<String, Value> = w
        .nodes
        .iter()
        .filter_map(|(p, n)| match n {
            Node::File(b) if !p.contains("/other/") => Some((p.clone(), json!(String::from_utf8_lossy(b)))),
            _ => None,
        })
        .collect();
    json!({
        "run_index": run, "case": case, "stratum": stratum.name(),
        "entry": w.entry.api_name(),
        "entry_text_or_path": match &w.entry {
            oq3sim::world::Entry::StringSearch{text} | oq3sim::world::Entry::StringPlain{text} => text.clone(),
            oq3sim::world::Entry::FileSearch{path} | oq3sim::world::Entry::FilePlain{path} => path.clone(),
        },
        "cwd": w.cwd, "search_list": w.list, "env_QASM3_PATH": w.env,
        "files": files,
        "faults": w.faults.iter().map(|f| f.to_json()).collect::<Vec<_>>(),
        "damage": w.damage.iter().map(|d| json!({"path": d.path, "kind": d.kind, "at": d.at})).collect::<Vec<_>>(),
        "history": history_json(r),
        "verdict": verdict,
    })
}

fn history_json(r: &Run) -> Value {
    Value::Array(
        r.history
            .iter()
            .map(|c| {
                let out = match &c.out {
                    Out::Bool(b) => json!(b),
                    Out::Text(t) => json!(format!("ok: {} bytes", t.len())),
                    Out::Path(p) => json!(format!("ok: {}", p)),
                    Out::Err { kind, .. } => json!(format!("err: {}", kind)),
                    Out::Env(v) => json!(v),
                };
                json!({"seq": c.seq, "op": c.op.name(), "arg": c.path, "result": out, "faults_fired": c.fired})
            })
            .collect(),
    )
}

fn verdict_name(v: &Verdict) -> String {
    match v {
        Verdict::Ok { full: true, .. } => "ok_full".into(),
        Verdict::Ok { gated: true, .. } => "ok_gated".into(),
        Verdict::Ok { .. } => "ok_partial".into(),
        Verdict::Skip(s) => format!("skip_{}", s),
        Verdict::Violation(v) => format!("violation_{}", v.signature),
    }
}

fn account(st: &mut Stats, w: &World, stratum: Stratum, v: &Verdict, info: &RunInfo, run: &Run) {
    st.inc("cases");
    st.inc(&format!("stratum/{}", stratum.name()));
    st.inc(&format!("entry/{}", w.entry.api_name()));
    st.inc(&format!("verdict/{}", verdict_name(v).split('/').next().unwrap_or("")));
    st.add("seam_calls", info.seam_calls as u64);
    st.add("reads", info.reads as u64);
    st.add("probes", info.probes as u64);
    for f in &w.faults {
        st.inc(&format!("configured/{}", f.kind()));
    }
    for d in &w.damage {
        st.inc(&format!("configured/{}", d.kind));
        let delivered = run.history.iter().any(|c| {
            c.op == Op::Read && c.resolved.as_deref() == Some(d.path.as_str())
        });
        let fired = match d.kind.as_str() {
            "missing" => run.history.iter().any(|c| c.op == Op::Read && matches!(&c.out, Out::Err{kind,..} if kind == "NotFound")),
            "notdir" => run.history.iter().any(|c| c.path.contains(d.path.as_str()) || matches!(&c.out, Out::Err{kind,..} if kind == "NotADirectory")),
            _ => delivered,
        };
        if fired {
            st.inc(&format!("fired/{}", d.kind));
        }
        if d.g3.is_some() {
            st.inc("configured/torn_inside_lexeme");
            st.inc(&format!("probe/tear_inside/{}", d.g3.as_ref().unwrap().0));
        }
    }
    for (k, n) in &info.fired {
        st.add(&format!("fired/{}", k), *n as u64);
    }
    for c in &run.history {
        if let (Op::Read, Out::Err { kind, .. }) = (c.op, &c.out) {
            st.inc(&format!("read_error/{}", kind));
        }
    }
    st.set_insert("history_shapes", info.history_shape);
    st.set_insert("tree_shapes", info.tree_shape);
    if info.reads >= 1 {
        st.inc("nontrivial_cases");
        st.set_insert(
            "nontrivial_signatures",
            mix(mix(info.history_shape, info.tree_shape), fnv1a(verdict_name(v).as_bytes())),
        );
    }
    // reach probes
    let mut probe = |name: &str, hit: bool| {
        if hit {
            st.inc(&format!("probe/{}", name));
        }
    };
    probe("first_hit_in_dir_1", info.found_in_dir[0] > 0);
    probe("first_hit_in_dir_2", info.found_in_dir[1] > 0);
    probe("first_hit_in_dir_3_or_later", info.found_in_dir[2] + info.found_in_dir[3] > 0);
    probe("as_given_fallback", info.as_given_fallback > 0);
    probe("environment_list_used", info.env_list_used);
    probe("misleading_environment_ignored", w.list.is_some() && w.env.is_some() && info.reads > 0);
    probe("decoy_stdgates_on_disk", info.decoy_std && info.std_included);
    probe("stdgates_included", info.std_included);
    probe("nesting_depth_2", info.max_depth >= 2);
    probe("nesting_depth_3", info.max_depth >= 3);
    probe("include_below_global_scope", info.nested_include_sites > 0);
    probe("vanish_between_probe_and_read", info.vanish_between_probe_and_read);
    probe("failed_include", info.failed_includes > 0);
    probe("gated", info.gated_by_depth.is_some());
    probe("gated_by_file_at_depth_2_or_more", info.gated_by_depth.is_some_and(|d| d >= 2));
    probe("diagnostic_at_end_of_file", info.diag_at_eof > 0);
    probe("diagnostic_after_multibyte_char", info.diag_after_multibyte > 0);
    probe("cycle_refused", info.cycle_refusals > 0);
    probe("same_file_included_twice", {
        let mut seen = std::collections::BTreeSet::new();
        run.history.iter().filter(|c| c.op == Op::Read).any(|c| c.resolved.as_ref().is_some_and(|r| !seen.insert(r.clone())))
    });
    st.add("checked/S1_syntax_spans", info.s1_checked as u64);
    st.add("checked/S2_semantic_spans", info.s2_checked as u64);
    st.add("checked/R6_standard_gate_names", info.r6_names_checked as u64);
    st.add("checked/G1_parse_entry_points_compared", info.g1_entry_points_compared as u64);
    st.add("checked/R6_user_gate_defined_first", info.r6_user_first as u64);
    st.add("checked/G3_torn_lexemes", info.g3_checked as u64);
    st.add("checked/reference_diagnostics_mapped", info.ref_diags as u64);
    for k in &info.sem_diag_kinds {
        st.str_insert("semantic_diagnostic_kinds", k);
    }
    st.add("sanity/pristine_files_with_lexical_errors", info.pristine_with_lexical_errors as u64);
    for sig in &info.other_failures {
        st.inc(&format!("other_property_oracle_failed/{}", sig));
    }
    if let (Verdict::Skip(_), Some(m)) = (v, &info.panic_msg) {
        st.inc(&format!("skipped_panic_class/{}", oq3sim::oracle::panic_class(m)));
    }
}

struct Batch {
    stats: Stats,
    found: Vec<Found>,
    samples: Vec<(u64, usize, Value)>,
    runs_done: u64,
}

#[allow(clippy::too_many_arguments)]
fn run_batch(
    property: &str,
    seed: u64,
    n_runs: u64,
    threads: usize,
    findings: &[Finding],
    only_stratum: Option<Stratum>,
    deadline: Option<Instant>,
    verbose: bool,
) -> Batch {
    let profile = profile_of(property);
    let stream = mix(seed, stream_of(property));
    let total = Arc::new(Mutex::new(Batch {
        stats: Stats::default(),
        found: vec![],
        samples: vec![],
        runs_done: 0,
    }));
    let mut chunk_start = 0u64;
    while chunk_start < n_runs {
        let chunk_end = (chunk_start + CHUNK).min(n_runs);
        let next = Arc::new(AtomicU64::new(chunk_start));
        let mut handles = vec![];
        for _ in 0..threads {
            let next = next.clone();
            let total = total.clone();
            let findings = findings.to_vec();
            let property = property.to_string();
            handles.push(
                std::thread::Builder::new()
                    .stack_size(64 << 20)
                    .spawn(move || {
                        let mut st = Stats::default();
                        let mut found: Vec<Found> = vec![];
                        let mut samples: Vec<(u64, usize, Value)> = vec![];
                        loop {
                            let i = next.fetch_add(1, Ordering::Relaxed);
                            if i >= chunk_end {
                                break;
                            }
                            let mut rng = Rng::new(mix(stream, i));
                            let (stratum, worlds) = match only_stratum {
                                Some(s) => gen::gen_cases_in(&mut rng, profile, "/w", s),
                                None => gen::gen_cases(&mut rng, profile, "/w"),
                            };
                            st.inc("runs");
                            for (case, w) in worlds.iter().enumerate() {
                                let (v, info, run) = oq3sim::check_world(w, Some(&property));
                                account(&mut st, w, stratum, &v, &info, &run);
                                if i < 64 && case == 0 && info.reads >= 1 && samples.len() < 4 {
                                    samples.push((i, case, world_sample(w, i, case, stratum, &verdict_name(&v), &run)));
                                }
                                if let Verdict::Violation(viol) = &v {
                                    if viol.props.iter().any(|p| *p == property) {
                                        if report::is_known(&findings, &property, &viol.signature) {
                                            st.inc(&format!("known_finding/{}", viol.signature));
                                        } else {
                                            st.inc(&format!("violation/{}", viol.signature));
                                            if found.len() < 64 {
                                                found.push(Found { run: i, case, world: w.clone(), violation: viol.clone() });
                                            }
                                        }
                                    } else {
                                        st.inc(&format!("other_property_oracle_failed/{}", viol.signature));
                                        if std::env::var("OQ3SIM_SHOW_OTHER").is_ok() {
                                            eprintln!("other-property failure: run {} case {} {} {}", i, case, viol.signature, viol.detail);
                                        }
                                    }
                                }
                            }
                        }
                        let mut t = total.lock().unwrap();
                        t.stats.merge(&st);
                        t.found.extend(found);
                        t.samples.extend(samples);
                    })
                    .unwrap(),
            );
        }
        for h in handles {
            h.join().unwrap();
        }
        let mut t = total.lock().unwrap();
        t.runs_done = chunk_end;
        if verbose {
            eprintln!("  .. {} runs, {} cases, {} violations", chunk_end, t.stats.get("cases"), t.found.len());
        }
        if !t.found.is_empty() {
            break;
        }
        if let Some(d) = deadline {
            if Instant::now() >= d {
                break;
            }
        }
        chunk_start = chunk_end;
    }
    let mut b = Arc::try_unwrap(total).ok().unwrap().into_inner().unwrap();
    b.found.sort_by_key(|f| (f.run, f.case));
    b.samples.sort_by_key(|s| (s.0, s.1));
    b
}

fn replay_json(property: &str, seed: u64, f: &Found, world: &World, minimised: bool, history: &Run) -> Value {
    json!({
        "engine": "incsim",
        "property": property,
        "oracle": f.violation.oracle,
        "signature": f.violation.signature,
        "detail": f.violation.detail,
        "verif_seed": seed,
        "run_index": f.run,
        "case_index": f.case,
        "minimised": minimised,
        "world": world.to_json(),
        "history": history_json(history),
        "replay": "cd /verif && ./check --replay <this file>",
    })
}

fn evidence(
    property: &str,
    tier: &str,
    seed: u64,
    b: &Batch,
    wall: f64,
    threads: usize,
    violations: usize,
    extra: Value,
) -> Value {
    let st = &b.stats;
    let cases = st.get("cases");
    let per_hour = if wall > 0.0 { (cases as f64 / wall * 3600.0) as u64 } else { 0 };
    let rule = "One case = one world (files, directories, cwd, search list, QASM3_PATH, entry point) + one fault plan + one call of a public entry point, all drawn from xoshiro256** seeded with mix(mix(VERIF_SEED, stream(property)), run_index); the sweep stratum expands one run index into one case per (seam call, applicable fault). A case is non-trivial iff it performed at least one file read through the seam; two non-trivial cases are distinct iff they differ in (history shape = sequence of (operation, outcome class) of seam calls, include-tree shape, verdict class).";
    json!({
        "property_id": property,
        "tier": tier,
        "seed": seed,
        "level": "exploration",
        "wall_s": wall,
        "violations": violations,
        "coverage": {
            "evaluations": cases,
            "distinct_nontrivial": st.set_len("nontrivial_signatures"),
            "rule": rule,
            "samples": b.samples.iter().take(3).map(|s| s.2.clone()).collect::<Vec<_>>(),
            "run_indices": b.runs_done,
            "worker_threads": threads,
            "cases_per_hour": per_hour,
            "seeds_per_hour": if wall > 0.0 { (b.runs_done as f64 / wall * 3600.0) as u64 } else { 0 },
            "simulated_time": {
                "note": "the system under test has no clock, timer or sleep; the logical clock of a run is the sequence number of seam calls",
                "seam_calls_total": st.get("seam_calls"),
                "reads_total": st.get("reads"),
                "existence_probes_total": st.get("probes"),
            },
            "strata": st.group("stratum/"),
            "entry_points": st.group("entry/"),
            "verdicts": st.group("verdict/"),
            "faults_configured": st.group("configured/"),
            "faults_fired": st.group("fired/"),
            "read_errors_delivered": st.group("read_error/"),
            "distinct_history_shapes": st.set_len("history_shapes"),
            "distinct_include_tree_shapes": st.set_len("tree_shapes"),
            "reach_probes": st.group("probe/"),
            "oracle_work": st.group("checked/"),
            "semantic_diagnostic_kinds_seen": st.strings.get("semantic_diagnostic_kinds").map(|s| s.iter().cloned().collect::<Vec<_>>()).unwrap_or_default(),
            "known_findings_hit": st.group("known_finding/"),
            "violations_by_signature": st.group("violation/"),
            "oracles_of_other_properties_that_failed": st.group("other_property_oracle_failed/"),
            "skipped_panic_classes": st.group("skipped_panic_class/"),
            "generator_sanity": st.group("sanity/"),
            "components": {
                "real_code": ["oq3_lexer", "oq3_parser", "oq3_syntax", "oq3_source_file (all but 4 std calls)", "oq3_semantics", "std::path", "std::env::split_paths"],
                "stubbed": ["file system (Path::is_file, fs::read_to_string, fs::canonicalize)", "environment variable QASM3_PATH", "working directory"],
                "not_run": ["ariadne error printing (print_errors)"],
            },
            "extra": extra,
        },
        "assumptions": [
            "the simulated file system resolves paths like the kernel (symbolic links followed, no hard links); checked against the real file system by the thorough tier's differential stratum, not proved",
            "std::path and std::env::split_paths are shared by model and code under test",
            "the oq3_syntax parser is trusted by the model for locating top-level include statements and for each file's own diagnostics",
            "the as-if oracle is relational: defects that affect the included and the flattened program identically are invisible to it",
            "seeded sampling, not enumeration: a clean batch is evidence, not proof"
        ],
    })
}

fn main() {
    let args = Args::from_env();
    if std::env::var("OQ3SIM_LOUD").is_err() {
        std::panic::set_hook(Box::new(|_| {}));
    }
    let seed = report::verif_seed();
    let threads = args.num("--threads").unwrap_or(16) as usize;
    match args.command() {
        "check" => {
            let property = args.value("--property").expect("--property");
            let tier = args.value("--tier").unwrap_or_else(|| "quick".into());
            let n_runs = args.num("--runs").unwrap_or(if tier == "quick" { 150_000 } else { 4_000_000 });
            let seconds = args.num("--seconds");
            let evidence_path = PathBuf::from(args.value("--evidence").unwrap_or_else(|| format!("/verif/evidence/{}.json", property)));
            let replay_dir = PathBuf::from(args.value("--replay-dir").unwrap_or_else(|| "/verif/replays".into()));
            let known = PathBuf::from(args.value("--known").unwrap_or_else(|| "/verif/known_findings.json".into()));
            let findings = match report::load_findings(&known) {
                Ok(f) => f,
                Err(e) => {
                    eprintln!("harness error: {}", e);
                    std::process::exit(2);
                }
            };
            println!("VERIF_SEED={} property={} tier={} runs<={} threads={}", seed, property, tier, n_runs, threads);
            let t0 = Instant::now();
            let deadline = seconds.map(|s| t0 + std::time::Duration::from_secs(s));
            let only = args.value("--stratum").map(|s| match s.as_str() {
                "static" => Stratum::Static,
                "dynamic" => Stratum::Dynamic,
                "sweep" => Stratum::Sweep,
                "cycle" => Stratum::Cycle,
                _ => panic!("unknown stratum"),
            });
            let b = run_batch(&property, seed, n_runs, threads, &findings, only, deadline, args.flag("--verbose"));
            // harness self-consistency: must never happen
            let harness_bad = b.stats.get("verdict/skip_harness_include_record_mismatch")
                + b.stats.get("verdict/skip_harness_model_panic");
            // distinct signatures; per signature the first occurrence whose replay file reproduces
            // the violation in a *fresh process* (a change to the code under test may add state
            // that outlives a run — a process-wide cache, say — and a violation that only shows
            // after other runs have been executed in the same process is not replayable from its
            // world alone; such a candidate is passed over if a later one of the same signature
            // is, and reported with a note otherwise)
            let mut reported: Vec<(Found, PathBuf)> = vec![];
            let mut seen = std::collections::BTreeSet::new();
            let confirm = |path: &PathBuf| -> bool {
                match std::env::current_exe().ok().and_then(|exe| {
                    std::process::Command::new(exe)
                        .arg("replay")
                        .arg(path)
                        .stdout(std::process::Stdio::null())
                        .stderr(std::process::Stdio::null())
                        .status()
                        .ok()
                }) {
                    Some(st) => st.code() == Some(1),
                    None => true, // cannot spawn: nothing to conclude
                }
            };
            for f in &b.found {
                if seen.contains(&f.violation.signature) || reported.len() >= 5 {
                    continue;
                }
                seen.insert(f.violation.signature.clone());
                let candidates: Vec<&Found> =
                    b.found.iter().filter(|g| g.violation.signature == f.violation.signature).take(12).collect();
                let mut chosen: Option<(Found, PathBuf)> = None;
                let mut first: Option<(Found, PathBuf)> = None;
                for c in candidates {
                    let name = format!("{}-{}-{}-{}.json", property, seed, c.run, c.case);
                    let path = replay_dir.join(name);
                    let write = |world: &World, minimised: bool| -> Found {
                        let (v2, _, run2) = oq3sim::check_world(world, Some(&property));
                        let mut c2 = c.clone();
                        if let Verdict::Violation(v) = &v2 {
                            c2.violation.detail = v.detail.clone();
                        }
                        if let Err(e) = report::write_json(&path, &replay_json(&property, seed, &c2, world, minimised, &run2)) {
                            eprintln!("harness error: {}", e);
                            std::process::exit(2);
                        }
                        c2
                    };
                    let min = minimise(&c.world, &c.violation.signature, Some(&property), 300);
                    let mut c2 = write(if min.steps_accepted > 0 { &min.world } else { &c.world }, min.steps_accepted > 0);
                    let mut ok = confirm(&path);
                    if !ok && min.steps_accepted > 0 {
                        // the minimiser ran in this process: fall back to the world as found
                        c2 = write(&c.world, false);
                        ok = confirm(&path);
                    }
                    if first.is_none() {
                        first = Some((c2.clone(), path.clone()));
                    }
                    if ok {
                        chosen = Some((c2, path));
                        break;
                    }
                }
                // files of candidates that are not reported are removed again
                let keep: Option<PathBuf> = chosen.as_ref().or(first.as_ref()).map(|x| x.1.clone());
                for g in b.found.iter().filter(|g| g.violation.signature == f.violation.signature).take(12) {
                    let p = replay_dir.join(format!("{}-{}-{}-{}.json", property, seed, g.run, g.case));
                    if Some(&p) != keep.as_ref() {
                        let _ = std::fs::remove_file(&p);
                    }
                }
                match (chosen, first) {
                    (Some(x), _) => reported.push(x),
                    (None, Some(x)) => {
                        println!(
                            "note: [{}] was seen only after other runs had been executed in the same process; none of its replay files reproduces it in a fresh process (state that outlives a run)",
                            x.0.violation.signature
                        );
                        reported.push(x)
                    }
                    (None, None) => {}
                }
            }
            let wall = t0.elapsed().as_secs_f64();
            for f in findings.iter().filter(|f| f.property == property && f.status == "known") {
                let hits = b.stats.get(&format!("known_finding/{}", f.signature));
                println!("KNOWN-FINDING: property={} signature={} hits_in_this_run={} {}", property, f.signature, hits, f.what);
            }
            let extra: Value = args.value("--extra").and_then(|s| serde_json::from_str(&s).ok()).unwrap_or_else(|| json!({}));
            let ev = evidence(&property, &tier, seed, &b, wall, threads, reported.len(), extra);
            if let Err(e) = report::write_json(&evidence_path, &ev) {
                eprintln!("harness error: {}", e);
                std::process::exit(2);
            }
            println!(
                "{}: {} run indices, {} cases, {} distinct non-trivial, {:.1}s, verdicts {}",
                property,
                b.runs_done,
                b.stats.get("cases"),
                b.stats.set_len("nontrivial_signatures"),
                wall,
                b.stats.group("verdict/")
            );
            if reported.is_empty() {
                if harness_bad > 0 {
                    // only when there is no violation to report: on a broken tree the disagreement
                    // is a symptom (e.g. shifted tree offsets) that some oracle reports as well
                    eprintln!("harness error: {} runs could not be judged (generator and parser disagree on the include statements of a pristine diagnostic-free file, or the model panicked)", harness_bad);
                    std::process::exit(2);
                }
                println!("OK property={} held on everything explored", property);
                std::process::exit(0);
            }
            for (f, path) in &reported {
                println!("  oracle {} [{}]: {}", f.violation.oracle, f.violation.signature, f.violation.detail);
                println!("VIOLATION property={} replay={}", property, path.display());
            }
            std::process::exit(1);
        }
        "replay" => {
            let path = args.0.get(1).expect("replay <file>");
            let text = std::fs::read_to_string(path).unwrap_or_else(|e| {
                eprintln!("harness error: {}: {}", path, e);
                std::process::exit(2)
            });
            let v: Value = serde_json::from_str(&text).unwrap_or_else(|e| {
                eprintln!("harness error: {}: {}", path, e);
                std::process::exit(2)
            });
            let property = v["property"].as_str().unwrap_or("?").to_string();
            let signature = v["signature"].as_str().unwrap_or("").to_string();
            let world = World::from_json(&v["world"]).unwrap_or_else(|e| {
                eprintln!("harness error: {}: {}", path, e);
                std::process::exit(2)
            });
            if v.get("print").and_then(|x| x.as_bool()) == Some(true) {
                let run = oq3sim::exec::run_world_opts(&world, true);
                if let RunResult::Returned(o) = &run.result {
                    if let Some(Err(msg)) = &o.print_outcome {
                        println!("  oracle S4 [S4/print-panics]: {}", msg);
                        println!("VIOLATION property={} replay={}", property, path);
                        std::process::exit(1);
                    }
                }
                println!("replay of {}: recorded violation [{}] does not recur", path, signature);
                std::process::exit(0);
            }
            let (verdict, _info, run) = oq3sim::check_world(&world, Some(&property));
            for c in history_json(&run).as_array().unwrap() {
                println!("  {}", c);
            }
            match verdict {
                Verdict::Violation(viol) if viol.signature == signature || signature.is_empty() => {
                    println!("  oracle {} [{}]: {}", viol.oracle, viol.signature, viol.detail);
                    println!("VIOLATION property={} replay={}", property, path);
                    std::process::exit(1);
                }
                other => {
                    println!("replay of {}: recorded violation [{}] does not recur; verdict now: {}", path, signature, verdict_name(&other));
                    std::process::exit(0);
                }
            }
        }
        "show" => {
            let property = args.value("--property").unwrap_or_else(|| "C18".into());
            let i = args.num("--run").unwrap_or(0);
            let mut rng = Rng::new(mix(mix(seed, stream_of(&property)), i));
            let (stratum, worlds) = gen::gen_cases(&mut rng, profile_of(&property), "/w");
            println!("stratum {} cases {}", stratum.name(), worlds.len());
            let case = args.num("--case").unwrap_or(0) as usize;
            let w = &worlds[case.min(worlds.len() - 1)];
            println!("{}", serde_json::to_string_pretty(&w.to_json()).unwrap());
            let (v, info, run) = oq3sim::check_world(w, Some(&property));
            for c in history_json(&run).as_array().unwrap() {
                println!("  {}", c);
            }
            if let RunResult::Panic(m) = &run.result {
                println!("PANIC {}", m);
            }
            println!("{:?}", v);
            println!("{:?}", info);
        }
        "digest" => {
            // per-run digests for the determinism proof
            let property = args.value("--property").unwrap_or_else(|| "C18".into());
            let n = args.num("--runs").unwrap_or(2000);
            let stream = mix(seed, stream_of(&property));
            let out = Arc::new(Mutex::new(vec![String::new(); n as usize]));
            let next = Arc::new(AtomicU64::new(0));
            let mut hs = vec![];
            for _ in 0..threads {
                let out = out.clone();
                let next = next.clone();
                let property = property.clone();
                hs.push(std::thread::Builder::new().stack_size(64 << 20).spawn(move || loop {
                    let i = next.fetch_add(1, Ordering::Relaxed);
                    if i >= n {
                        break;
                    }
                    let mut rng = Rng::new(mix(stream, i));
                    let (stratum, worlds) = gen::gen_cases(&mut rng, profile_of(&property), "/w");
                    let mut h: u64 = fnv1a(stratum.name().as_bytes());
                    for w in &worlds {
                        let (v, _info, run) = oq3sim::check_world(w, Some(&property));
                        h = mix(h, fnv1a(serde_json::to_string(&w.to_json()).unwrap().as_bytes()));
                        h = mix(h, fnv1a(history_json(&run).to_string().as_bytes()));
                        h = mix(h, fnv1a(format!("{:?}", v).as_bytes()));
                        if let RunResult::Returned(o) = &run.result {
                            h = mix(h, fnv1a(format!("{:?}{:?}{:?}{}", o.program, o.lists, o.files, o.any_syntax).as_bytes()));
                        }
                    }
                    out.lock().unwrap()[i as usize] = format!("{} {:016x}", i, h);
                }).unwrap());
            }
            for h in hs {
                h.join().unwrap();
            }
            for l in out.lock().unwrap().iter() {
                println!("{}", l);
            }
        }
        "probe" => {
            // developer aid: analyse snippets (separated by lines `---`) as single sources
            let mut input = String::new();
            std::io::Read::read_to_string(&mut std::io::stdin(), &mut input).unwrap();
            for snip in input.split("\n---\n") {
                if std::env::var("OQ3SIM_TREE").is_ok() {
                    let p = oq3_syntax::SourceFile::parse_check_lex(snip);
                    if p.have_parse() {
                        println!("{:#?}", p.syntax_node());
                    }
                }
                let mut w = World::empty();
                w.entry = oq3sim::world::Entry::StringPlain { text: snip.to_string() };
                let run = oq3sim::exec::run_world(&w);
                match &run.result {
                    RunResult::Returned(o) => println!(
                        "OK   stmts={} syntax_errs={} sem={:?}  <= {:?}",
                        o.program.stmts().len(),
                        o.num_syntax_errors,
                        o.lists.diags.iter().map(|d| d.kind.clone()).collect::<Vec<_>>(),
                        snip
                    ),
                    RunResult::Panic(m) => println!("PANIC {}  <= {:?}", m.chars().take(90).collect::<String>(), snip),
                    RunResult::Budget => println!("BUDGET <= {:?}", snip),
                }
            }
        }
        "lexprobe" => {
            // developer aid: lexical diagnostics (token start, token text, message) of each line of stdin
            let mut input = String::new();
            std::io::Read::read_to_string(&mut std::io::stdin(), &mut input).unwrap();
            for line in input.lines() {
                let l = oq3_parser::LexedStr::new(line);
                let errs: Vec<String> = l
                    .errors()
                    .map(|(i, m)| format!("{}:{:?}:{}", l.text_range(i).start, l.text(i), m))
                    .collect();
                println!("{:?} => {:?}", line, errs);
            }
        }
        "printcheck" => {
            // S4 (C12): the consumer of the spans. After the analysis of a static world,
            // `print_errors()` renders every diagnostic with ariadne, re-reading the files through
            // the seam. It must not panic when the run is otherwise judged fine. Rendered output
            // goes to stdout (redirect it); results go to stderr and to the exit code.
            let n = args.num("--runs").unwrap_or(20000);
            let replay_dir = PathBuf::from(args.value("--replay-dir").unwrap_or_else(|| "/verif/replays".into()));
            let stream = mix(seed, fnv1a(b"incsim/printcheck"));
            let (mut judged, mut printed_diags, mut reread_calls, mut bad) = (0u64, 0u64, 0u64, 0u64);
            let mut first: Option<(u64, World, String)> = None;
            for i in 0..n {
                let mut rng = Rng::new(mix(stream, i));
                let profile = if i % 2 == 0 { Profile::Spans } else { Profile::Gating };
                let (_s, worlds) = gen::gen_cases_in(&mut rng, profile, "/w", Stratum::Static);
                let w = &worlds[0];
                let run = oq3sim::exec::run_world_opts(w, true);
                let (v, _info) = oq3sim::judge_contained(w, &run, Some("C12"));
                if !matches!(v, Verdict::Ok { .. }) {
                    continue;
                }
                if let RunResult::Returned(o) = &run.result {
                    judged += 1;
                    reread_calls += o.print_calls.len() as u64;
                    fn count(l: &oq3sim::exec::ListTree) -> u64 {
                        l.diags.len() as u64 + l.children.iter().map(count).sum::<u64>()
                    }
                    printed_diags += count(&o.lists) + o.num_syntax_errors as u64;
                    if let Some(Err(msg)) = &o.print_outcome {
                        bad += 1;
                        if first.is_none() {
                            first = Some((i, w.clone(), msg.clone()));
                        }
                    }
                }
            }
            eprintln!("PRINTCHECK judged={} diagnostics_rendered={} files_reread={} print_panics={}", judged, printed_diags, reread_calls, bad);
            if let Some((i, w, msg)) = first {
                let path = replay_dir.join(format!("C12-print-{}-{}.json", seed, i));
                let v = json!({"engine":"incsim","property":"C12","oracle":"S4","signature":"S4/print-panics","print":true,
                    "detail": format!("print_errors() panics although every span is valid: {}", msg),
                    "verif_seed": seed, "run_index": i, "world": w.to_json()});
                let _ = report::write_json(&path, &v);
                eprintln!("  oracle S4 [S4/print-panics]: print_errors() panics although every span is valid: {}", msg);
                eprintln!("VIOLATION property=C12 replay={}", path.display());
                std::process::exit(1);
            }
            std::process::exit(0);
        }
        "realfs" => {
            let code = oq3sim::realfs::run(&args, seed);
            std::process::exit(code);
        }
        other => {
            eprintln!("usage: incsim check|replay|show|digest|realfs …  (got `{}`)", other);
            std::process::exit(2);
        }
    }
    let _ = Path::new("");
}
