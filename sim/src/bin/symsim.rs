//! Engine E2 driver: seeded operation histories on `SymbolTable` for C19.

use oq3sim::prng::{fnv1a, mix, Rng};
use oq3sim::report::{self, Args, Stats};
use oq3sim::sym::{self, SymOp, SymViolation};
use serde_json::{json, Value};
use std::path::PathBuf;
use std::sync::atomic::{AtomicU64, Ordering};
use std::sync::{Arc, Mutex};
use std::time::Instant;

const CHUNK: u64 = 8192;

struct Found {
    run: u64,
    ops: Vec<SymOp>,
    names: Vec<String>,
    v: SymViolation,
}

fn history_json(ops: &[SymOp]) -> Value {
    Value::Array(ops.iter().map(|o| o.to_json()).collect())
}

fn main() {
    let args = Args::from_env();
    if std::env::var("OQ3SIM_LOUD").is_err() {
        std::panic::set_hook(Box::new(|_| {}));
    }
    let seed = report::verif_seed();
    let threads = args.num("--threads").unwrap_or(16) as usize;
    let stream = mix(seed, fnv1a(b"symsim/C19"));
    match args.command() {
        "check" => {
            let tier = args.value("--tier").unwrap_or_else(|| "quick".into());
            let n_runs = args.num("--runs").unwrap_or(if tier == "quick" { 300_000 } else { 20_000_000 });
            let evidence_path = PathBuf::from(args.value("--evidence").unwrap_or_else(|| "/verif/evidence/C19.json".into()));
            let replay_dir = PathBuf::from(args.value("--replay-dir").unwrap_or_else(|| "/verif/replays".into()));
            let known = PathBuf::from(args.value("--known").unwrap_or_else(|| "/verif/known_findings.json".into()));
            let findings = report::load_findings(&known).unwrap_or_else(|e| {
                eprintln!("harness error: {}", e);
                std::process::exit(2)
            });
            let deadline = args.num("--seconds").map(|s| Instant::now() + std::time::Duration::from_secs(s));
            println!("VERIF_SEED={} property=C19 tier={} histories<={} threads={}", seed, tier, n_runs, threads);
            let t0 = Instant::now();
            let total = Arc::new(Mutex::new((Stats::default(), Vec::<Found>::new(), Vec::<(u64, Value)>::new())));
            let mut start = 0u64;
            let mut done = 0u64;
            while start < n_runs {
                let end = (start + CHUNK * threads as u64).min(n_runs);
                let next = Arc::new(AtomicU64::new(start));
                let mut hs = vec![];
                for _ in 0..threads {
                    let next = next.clone();
                    let total = total.clone();
                    let findings = findings.clone();
                    hs.push(std::thread::spawn(move || {
                        let mut st = Stats::default();
                        let mut found = vec![];
                        let mut samples = vec![];
                        loop {
                            let i = next.fetch_add(1, Ordering::Relaxed);
                            if i >= end {
                                break;
                            }
                            let mut rng = Rng::new(mix(stream, i));
                            let (ops, names) = sym::gen_history(&mut rng);
                            let (res, info) = sym::check_history(&ops, &names);
                            st.inc("histories");
                            st.add("steps", info.steps as u64);
                            st.add("observations", info.observations as u64);
                            st.add("op/bind_ok", info.binds_ok as u64);
                            st.add("op/bind_rejected_already_bound", info.binds_rejected as u64);
                            st.add("op/lookup_hit", info.lookups_hit as u64);
                            st.add("op/lookup_miss", info.lookups_miss as u64);
                            st.add("op/fork", info.forks as u64);
                            st.add("op/load_standard_gates", info.std_loads as u64);
                            st.add("fault/exit_scope_at_global_scope", info.misuse_exit_global as u64);
                            st.add("fault/second_global_scope", info.misuse_enter_global as u64);
                            st.add("fault/misuse_steps_that_panicked", info.misuse_panicked as u64);
                            st.add("probe/lookup_of_shadowed_name", info.shadowed_lookups as u64);
                            st.add("probe/ids_checked_after_their_scope_closed", info.ids_checked_after_scope_closed as u64);
                            st.add("ids_issued", info.ids_issued as u64);
                            if info.max_depth >= 5 {
                                st.inc("probe/depth_5_or_more");
                            }
                            if info.max_depth >= 20 {
                                st.inc("probe/depth_20_or_more");
                            }
                            if info.steps >= 100 {
                                st.inc("probe/history_of_100_steps_or_more");
                            }
                            let nontrivial = info.max_depth >= 2 && info.binds_ok >= 1;
                            if nontrivial {
                                st.inc("nontrivial");
                                st.set_insert("shapes", info.shape);
                            }
                            if i < 3 {
                                samples.push((i, json!({"history_index": i, "names": names, "ops": history_json(&ops), "result": if res.is_ok() {"refines the model"} else {"violation"}})));
                            }
                            if let Err(v) = res {
                                if report::is_known(&findings, "C19", &v.signature) {
                                    st.inc(&format!("known_finding/{}", v.signature));
                                } else {
                                    st.inc(&format!("violation/{}", v.signature));
                                    if found.len() < 32 {
                                        found.push(Found { run: i, ops, names, v });
                                    }
                                }
                            }
                        }
                        let mut t = total.lock().unwrap();
                        t.0.merge(&st);
                        t.1.extend(found);
                        t.2.extend(samples);
                    }));
                }
                for h in hs {
                    h.join().unwrap();
                }
                done = end;
                if !total.lock().unwrap().1.is_empty() {
                    break;
                }
                if deadline.is_some_and(|d| Instant::now() >= d) {
                    break;
                }
                start = end;
            }
            let (st, mut found, mut samples) = Arc::try_unwrap(total).ok().unwrap().into_inner().unwrap();
            found.sort_by_key(|f| f.run);
            samples.sort_by_key(|s| s.0);
            let mut reported = vec![];
            let mut seen = std::collections::BTreeSet::new();
            for f in &found {
                if !seen.insert(f.v.signature.clone()) || reported.len() >= 5 {
                    continue;
                }
                let (min_ops, execs) = sym::minimise_history(&f.ops, &f.names, &f.v.signature, 2000);
                let (res, _) = sym::check_history(&min_ops, &f.names);
                let detail = match &res {
                    Err(v) => v.detail.clone(),
                    Ok(()) => f.v.detail.clone(),
                };
                let path = replay_dir.join(format!("C19-{}-{}.json", seed, f.run));
                let v = json!({
                    "engine": "symsim", "property": "C19", "signature": f.v.signature, "detail": detail,
                    "verif_seed": seed, "history_index": f.run, "names": f.names,
                    "ops": history_json(&min_ops), "original_length": f.ops.len(), "minimiser_executions": execs,
                    "replay": "cd /verif && ./check --replay <this file>",
                });
                if let Err(e) = report::write_json(&path, &v) {
                    eprintln!("harness error: {}", e);
                    std::process::exit(2);
                }
                reported.push((f.v.signature.clone(), detail, path));
            }
            let wall = t0.elapsed().as_secs_f64();
            for f in findings.iter().filter(|f| f.property == "C19" && f.status == "known") {
                println!("KNOWN-FINDING: property=C19 signature={} hits_in_this_run={} {}", f.signature, st.get(&format!("known_finding/{}", f.signature)), f.what);
            }
            let ev = json!({
                "property_id": "C19", "tier": tier, "seed": seed, "level": "exploration", "wall_s": wall,
                "violations": reported.len(),
                "coverage": {
                    "evaluations": st.get("histories"),
                    "distinct_nontrivial": st.set_len("shapes"),
                    "rule": "One case = one operation history (length 1-200, swarm-weighted) on a fresh SymbolTable, drawn from xoshiro256** seeded with mix(mix(VERIF_SEED, stream), history_index); after every step the operation's result and a full observation (lookup of every name of the pool and of the built-ins, len_current_scope, scope depth and type, gates(), hardware_qubits(), table[id] for every id ever issued) are compared with a stack-of-maps model. A history is non-trivial iff it opens at least one nested scope and makes at least one successful binding; two are distinct iff their sequences of (operation outcome class, scope depth) differ.",
                    "samples": samples.iter().map(|s| s.1.clone()).collect::<Vec<_>>(),
                    "histories_per_hour": if wall > 0.0 { (done as f64 / wall * 3600.0) as u64 } else { 0 },
                    "steps_total": st.get("steps"),
                    "full_observations_total": st.get("observations"),
                    "nontrivial_histories": st.get("nontrivial"),
                    "ids_issued_total": st.get("ids_issued"),
                    "simulated_time": "none: the symbol table has no clock; the logical clock is the step number of the history",
                    "operations": st.group("op/"),
                    "fault_steps_injected": st.group("fault/"),
                    "reach_probes": st.group("probe/"),
                    "known_findings_hit": st.group("known_finding/"),
                    "violations_by_signature": st.group("violation/"),
                    "worker_threads": threads,
                    "components": {"real_code": ["oq3_semantics::symbols::SymbolTable (public API + hook H2 wrappers)", "oq3_semantics::types::Type"], "stubbed": [], "model": "Vec<(ScopeType, BTreeMap<String, usize>)> + Vec<(String, Type)>"},
                },
                "assumptions": [
                    "single client: SymbolTable has no interior mutability, so there is no scheduler to control; the history is the only dimension",
                    "the order in which the standard gates receive their ids is not part of the property: the model adopts the implementation's order and checks set, arity and uniqueness",
                    "misuse steps (exit at global scope, second global scope) may panic or do nothing; they must leave the table observably unchanged",
                    "seeded sampling of histories; the bounded-exhaustive enumeration mentioned by the property's quantifier is model checking and is not attempted"
                ],
            });
            if let Err(e) = report::write_json(&evidence_path, &ev) {
                eprintln!("harness error: {}", e);
                std::process::exit(2);
            }
            println!("C19: {} histories, {} steps, {} distinct non-trivial shapes, {:.1}s", st.get("histories"), st.get("steps"), st.set_len("shapes"), wall);
            if reported.is_empty() {
                println!("OK property=C19 held on everything explored");
                std::process::exit(0);
            }
            for (sig, detail, path) in &reported {
                println!("  [{}] {}", sig, detail);
                println!("VIOLATION property=C19 replay={}", path.display());
            }
            std::process::exit(1);
        }
        "replay" => {
            let path = args.0.get(1).expect("replay <file>");
            let v: Value = std::fs::read_to_string(path)
                .map_err(|e| e.to_string())
                .and_then(|t| serde_json::from_str(&t).map_err(|e| e.to_string()))
                .unwrap_or_else(|e| {
                    eprintln!("harness error: {}: {}", path, e);
                    std::process::exit(2)
                });
            let names: Vec<String> = v["names"].as_array().map(|a| a.iter().filter_map(|x| x.as_str().map(|s| s.to_string())).collect()).unwrap_or_default();
            let ops: Vec<SymOp> = match v["ops"].as_array().map(|a| a.iter().map(SymOp::from_json).collect::<Result<Vec<_>, _>>()) {
                Some(Ok(o)) => o,
                _ => {
                    eprintln!("harness error: {}: bad ops", path);
                    std::process::exit(2)
                }
            };
            let signature = v["signature"].as_str().unwrap_or("").to_string();
            for (i, o) in ops.iter().enumerate() {
                println!("  step {}: {}", i + 1, o.to_json());
            }
            match sym::check_history(&ops, &names).0 {
                Err(viol) if viol.signature == signature || signature.is_empty() => {
                    println!("  [{}] {}", viol.signature, viol.detail);
                    println!("VIOLATION property=C19 replay={}", path);
                    std::process::exit(1);
                }
                other => {
                    println!("replay of {}: recorded violation [{}] does not recur ({:?})", path, signature, other.err().map(|v| v.signature));
                    std::process::exit(0);
                }
            }
        }
        "digest" => {
            let n = args.num("--runs").unwrap_or(2000);
            for i in 0..n {
                let mut rng = Rng::new(mix(stream, i));
                let (ops, names) = sym::gen_history(&mut rng);
                let (res, info) = sym::check_history(&ops, &names);
                let h = mix(fnv1a(history_json(&ops).to_string().as_bytes()), mix(info.shape, fnv1a(format!("{:?}{:?}", res, names).as_bytes())));
                println!("{} {:016x}", i, h);
            }
        }
        other => {
            eprintln!("usage: symsim check|replay|digest …  (got `{}`)", other);
            std::process::exit(2);
        }
    }
}
