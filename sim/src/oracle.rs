//! Oracles of engine E1 (DESIGN.md §4.4, §5): R0–R8 (C18), G1–G3 (C11), S1–S3 (C12), and the
//! containment rule for panics. `judge` evaluates them for one executed run, in a fixed order;
//! the first failing oracle ends the judgement of the run.

use crate::exec::{run_reference, Diag, ListTree, Obs, Run, RunResult, SynFile};
use crate::model::{Model, STDGATES};
use crate::simfs::{Call, Op, Out};
use crate::world::World;
use oq3_semantics::symbols::{SymbolTable, SymbolType};
use oq3_semantics::types::Type;
use std::collections::{BTreeMap, BTreeSet};

#[derive(Clone, Debug, PartialEq)]
pub struct Violation {
    /// "R1" … "S3"
    pub oracle: &'static str,
    /// properties whose statement the failing oracle belongs to
    pub props: Vec<&'static str>,
    /// structural signature (oracle id + class), stable across seeds and line numbers
    pub signature: String,
    pub detail: String,
}

#[derive(Clone, Debug, PartialEq)]
pub enum Verdict {
    /// every applicable oracle held; `full` = the as-if comparison against the reference ran
    Ok { full: bool, gated: bool },
    /// the run is not judged; the reason is counted in the evidence
    Skip(&'static str),
    Violation(Violation),
}

/// Facts about a run that feed the evidence (reach probes, shapes), independent of the verdict.
#[derive(Clone, Debug, Default)]
pub struct RunInfo {
    pub seam_calls: usize,
    pub reads: usize,
    pub probes: usize,
    pub fired: BTreeMap<&'static str, usize>,
    pub history_shape: u64,
    pub tree_shape: u64,
    pub max_depth: usize,
    pub instances: usize,
    pub failed_includes: usize,
    pub found_in_dir: [usize; 4],
    pub as_given_fallback: usize,
    pub env_list_used: bool,
    pub nested_include_sites: usize,
    pub gated_by_depth: Option<usize>,
    pub std_included: bool,
    pub decoy_std: bool,
    pub vanish_between_probe_and_read: bool,
    pub s2_checked: usize,
    pub s1_checked: usize,
    pub diag_at_eof: usize,
    pub diag_after_multibyte: usize,
    pub ref_diags: usize,
    pub r6_names_checked: usize,
    pub g1_entry_points_compared: usize,
    pub r6_user_first: usize,
    pub g3_checked: usize,
    pub cycle_refusals: usize,
    pub sem_diag_kinds: BTreeSet<String>,
    /// pristine files (as written by the generator) that nevertheless have lexical diagnostics:
    /// expected to stay 0; a non-zero count is a defect of the generator, not a violation
    pub pristine_with_lexical_errors: usize,
    pub panic_msg: Option<String>,
    /// signatures of failing soft oracles of properties other than the one under check
    pub other_failures: Vec<String>,
}

fn viol(oracle: &'static str, props: &[&'static str], class: &str, detail: String) -> Verdict {
    Verdict::Violation(Violation {
        oracle,
        props: props.to_vec(),
        signature: format!("{}/{}", oracle, class),
        detail,
    })
}


// A failing oracle that belongs to the property under check (or any failing oracle when no focus
// is given) ends the judgement. A failing "soft" oracle of another property is noted and
// evaluation continues, so that e.g. a wrong lexical range (G1, C11) does not hide the span check
// of the same diagnostic (S1, C12).
macro_rules! soft {
    ($info:ident, $focus:ident, $v:expr) => {{
        let v = $v;
        if let Verdict::Violation(x) = &v {
            if $focus.is_none_or(|f| x.props.iter().any(|p| *p == f)) {
                return (v, $info);
            }
            $info.other_failures.push(x.signature.clone());
        }
    }};
}
macro_rules! soft_f {
    ($info:ident, $focus:ident, $v:expr) => {{
        let v = $v;
        if let Verdict::Violation(x) = &v {
            if $focus.is_none_or(|f| x.props.iter().any(|p| *p == f)) {
                return Some(v);
            }
            $info.other_failures.push(x.signature.clone());
        }
    }};
}

const C18: &[&str] = &["C18"];
const C11: &[&str] = &["C11"];
const C12: &[&str] = &["C12"];

fn fnv_update(h: &mut u64, bytes: &[u8]) {
    for b in bytes {
        *h ^= *b as u64;
        *h = h.wrapping_mul(0x0000_0100_0000_01B3);
    }
}

fn history_shape(history: &[Call]) -> u64 {
    let mut h: u64 = 0xcbf2_9ce4_8422_2325;
    for c in history {
        fnv_update(&mut h, c.op.name().as_bytes());
        fnv_update(&mut h, c.out.class().as_bytes());
        fnv_update(&mut h, b";");
    }
    h
}

fn tree_shape(m: &Model, i: usize, h: &mut u64) {
    fnv_update(h, b"(");
    let inst = &m.insts[i];
    fnv_update(
        h,
        if inst.text.is_some() {
            b"t"
        } else if inst.refused_recursive {
            b"c"
        } else {
            b"f"
        },
    );
    for c in &inst.children {
        tree_shape(m, *c, h);
    }
    fnv_update(h, b")");
}

fn span_ok(text: &str, start: usize, end: usize) -> bool {
    start <= end && end <= text.len() && text.is_char_boundary(start) && text.is_char_boundary(end)
}

/// Classify a panic message of the front end into a short, line-number-free class.
pub fn panic_class(msg: &str) -> String {
    let m = msg;
    if m.contains("called `Option::unwrap()` on a `None` value") {
        "unwrap-none".into()
    } else if m.contains("include_error.is_some()") {
        "canonicalize-assert".into()
    } else if m.contains("Unable to read OpenQASM source file") {
        "main-unreadable".into()
    } else if m.contains("oq3_verif: the parser pushed") {
        "parser-no-progress".into()
    } else if m.contains("unreachable") {
        "unreachable".into()
    } else {
        let head: String = m
            .chars()
            .take(40)
            .map(|c| if c.is_ascii_alphanumeric() { c } else { '-' })
            .collect();
        head
    }
}

fn flatten_lists<'t>(t: &'t ListTree, out: &mut Vec<&'t ListTree>) {
    out.push(t);
    for c in &t.children {
        flatten_lists(c, out);
    }
}

/// `gate NAME(p, …) q, … {` as the first statement of `text` (after an optional version line):
/// (NAME, number of parameters, number of qubits).
fn leading_user_gate(text: &str) -> Option<(String, usize, usize)> {
    let toks: Vec<String> = std::panic::catch_unwind(|| {
        let l = oq3_parser::LexedStr::new(text);
        (0..l.len())
            .filter(|i| !matches!(l.kind(*i), oq3_syntax::SyntaxKind::WHITESPACE | oq3_syntax::SyntaxKind::COMMENT))
            .map(|i| l.text(i).to_string())
            .collect()
    })
    .ok()?;
    let mut i = 0;
    if toks.first().is_some_and(|t| t.starts_with("OPENQASM")) {
        i = toks.iter().position(|t| t == ";")? + 1;
    }
    if toks.get(i)? != "gate" {
        return None;
    }
    let name = toks.get(i + 1)?.clone();
    i += 2;
    let mut np = 0;
    if toks.get(i)? == "(" {
        i += 1;
        while toks.get(i)? != ")" {
            if toks[i] != "," {
                np += 1;
            }
            i += 1;
        }
        i += 1;
    }
    let mut nq = 0;
    while toks.get(i)? != "{" {
        if toks[i] != "," {
            nq += 1;
        }
        i += 1;
    }
    Some((name, np, nq))
}

/// Names for which the project's own text has something that looks like a declaration (used
/// only to decide which standard gate names R6 may check).
fn names_declared_in(text: &str, out: &mut BTreeSet<String>) {
    let lexed = match std::panic::catch_unwind(|| {
        let l = oq3_parser::LexedStr::new(text);
        (0..l.len())
            .map(|i| (l.kind(i), l.text(i).to_string()))
            .collect::<Vec<_>>()
    }) {
        Ok(v) => v,
        Err(_) => return,
    };
    let mut prev: Option<String> = None; // previous significant token text
    for (kind, t) in lexed {
        use oq3_syntax::SyntaxKind as K;
        if matches!(kind, K::WHITESPACE | K::COMMENT) {
            continue;
        }
        if matches!(kind, K::ANNOTATION | K::PRAGMA) {
            prev = None;
            continue;
        }
        if kind == K::IDENT {
            let is_use_position = match prev.as_deref() {
                None => true,
                Some(p) => matches!(p, ";" | "{" | "}" | ")"),
            };
            if !is_use_position {
                out.insert(t.clone());
            }
        }
        prev = Some(t);
    }
}

/// G3 (C11): a damage that leaves a malformed lexeme of a class C11 names must be diagnosed by the
/// lexer on that lexeme. Only lexical facts are used, so this is evaluated even when the tree of
/// the file does not spell its text.
fn g3_damaged_lexemes(w: &World, m: &Model, info: &mut RunInfo, focus: Option<&str>) -> Option<Verdict> {
    for d in &w.damage {
        if let Some((class, lexeme_start)) = &d.g3 {
            // find delivered instances of the damaged file
            for inst in &m.insts {
                let delivered_as_stored = match (&inst.text, w.nodes.get(&d.path)) {
                    (Some(t), Some(crate::world::Node::File(b))) => t.as_bytes() == b.as_slice(),
                    _ => false,
                };
                if inst.resolved.as_deref() == Some(d.path.as_str()) && delivered_as_stored {
                    if let Some(facts) = &inst.facts {
                        info.g3_checked += 1;
                        if !facts.lex.iter().any(|e| e.0 == *lexeme_start) {
                            soft_f!(info, focus, viol(
                                    "G3",
                                    C11,
                                    &format!("undiagnosed/{}", class),
                                    format!(
                                        "`{}` was damaged ({}) at byte {}, which leaves a malformed {} starting at byte {}; no lexical diagnostic is located on that lexeme (lexical diagnostics at {:?})",
                                        d.path, d.kind, d.at, class, lexeme_start,
                                        facts.lex.iter().map(|e| e.0).collect::<Vec<_>>()
                                    ),
                                ));
                        }
                    }
                }
            }
        }
    }
    None
}

/// Judge one executed run. `prop` selects nothing here: all oracles are evaluated in a fixed
/// order and the first failing one is returned with the properties it belongs to.
pub fn judge(w: &World, run: &Run, focus: Option<&str>) -> (Verdict, RunInfo) {
    let mut info = RunInfo {
        seam_calls: run.history.len(),
        history_shape: history_shape(&run.history),
        ..Default::default()
    };
    for c in &run.history {
        match c.op {
            Op::Read => info.reads += 1,
            Op::IsFile => info.probes += 1,
            _ => {}
        }
        for f in &c.fired {
            *info.fired.entry(f).or_default() += 1;
        }
    }
    // vanish probe: a probe answered true and the read of the same path then says NotFound
    for (i, c) in run.history.iter().enumerate() {
        if c.op == Op::IsFile && c.out == Out::Bool(true) {
            if let Some(r) = run.history[i + 1..]
                .iter()
                .find(|x| x.op == Op::Read && x.path == c.path)
            {
                if matches!(&r.out, Out::Err { kind, .. } if kind == "NotFound") {
                    info.vanish_between_probe_and_read = true;
                }
            }
        }
    }
    info.decoy_std = w.nodes.keys().any(|k| k.ends_with("/stdgates.inc"));

    let mut m = Model::new(w, &run.history);
    let mut built = m.build();
    if m.cycle_refusals > 0 && (!m.r2.is_empty() || !m.history_fully_explained()) && !m.truncated {
        // The run has refused recursive includes and the model does not explain it. A front end
        // may look at a file before it refuses it (C18 says nothing about reads that have no
        // effect): build the model once more under that policy and keep it if it explains
        // every call.
        let mut cand = Model::new(w, &run.history);
        cand.read_before_refusal = true;
        let b = cand.build();
        if cand.r2.is_empty() && cand.history_fully_explained() && !cand.truncated {
            m = cand;
            built = b;
        }
    }
    if m.ambiguous_sites > 0 {
        // try the alternative attributions of reads of unresolvable paths and keep the first
        // explanation that is consistent with the history and with the tree of parsed sources
        // the number of ambiguous sites met depends on the choices made before them, so the
        // search is over choice vectors of a fixed length (sites beyond it default to "read")
        let k = 8usize;
        let consistent = |m: &Model, run: &Run| -> bool {
            if !m.r2.is_empty() || m.truncated || !m.history_fully_explained() {
                return false;
            }
            fn shape(m: &Model, i: usize, f: &SynFile) -> bool {
                let inst = &m.insts[i];
                if f.children.len() != inst.children.len() {
                    return false;
                }
                if inst.text.is_none() && !inst.refused_recursive {
                    if let (Some(k), Some(e)) = (&inst.io_kind, &f.include_error) {
                        if k != e {
                            return false;
                        }
                    }
                    // a site explained as "not read" must not carry the error of a real read
                    if inst.io_kind.is_none() && f.include_error.as_deref().is_some_and(|e| e != "InvalidInput") {
                        return false;
                    }
                }
                inst.children.iter().zip(&f.children).all(|(c, fc)| shape(m, *c, fc))
            }
            match &run.result {
                RunResult::Returned(o) => m.insts.is_empty() || shape(m, 0, &o.files),
                _ => true,
            }
        };
        if !consistent(&m, run) {
            for mask in 1u32..(1 << k) {
                let mut cand = Model::new(w, &run.history);
                cand.read_before_refusal = m.read_before_refusal;
                cand.choices = (0..k).map(|b| mask & (1 << b) == 0).collect();
                let b = cand.build();
                if consistent(&cand, run) {
                    m = cand;
                    built = b;
                    break;
                }
            }
        }
    }
    info.env_list_used = m.env_used;
    info.cycle_refusals = m.cycle_refusals;
    info.instances = m.insts.len();
    info.std_included = m.std_included_top;
    for inst in &m.insts {
        info.max_depth = info.max_depth.max(inst.depth);
        if inst.parent.is_some() {
            if inst.text.is_none() {
                info.failed_includes += 1;
            }
            match inst.found_in_dir {
                Some(d) => info.found_in_dir[d.min(3)] += 1,
                None => info.as_given_fallback += 1,
            }
        }
        if let Some(f) = &inst.facts {
            info.nested_include_sites += f.nested_includes.len();
        }
    }
    if !m.insts.is_empty() {
        let mut h = 0xcbf2_9ce4_8422_2325u64;
        tree_shape(&m, 0, &mut h);
        info.tree_shape = h;
    }

    for i in 0..m.insts.len() {
        if m.meta_of(i).is_some() && m.insts[i].facts.as_ref().is_some_and(|f| !f.lex.is_empty()) {
            info.pristine_with_lexical_errors += 1;
        }
    }

    // ------------------------------------------------------------------ S1 tree spells its text
    // The model locates statements and diagnostics by the offsets of the tree; a tree that does
    // not spell the text it was parsed from makes every span meaningless (and the model stops
    // expanding at that file), so this is decided before anything else.
    if let Some((target, tree_len, text_len)) = &m.tree_mismatch {
        if let Some(v) = g3_damaged_lexemes(w, &m, &mut info, focus) {
            return (v, info);
        }
        return (
            viol(
                "S1",
                C12,
                "tree-length",
                format!(
                    "`{}`: the tree of the delivered text spells {} bytes, the text has {} (or the same length and different characters)",
                    target, tree_len, text_len
                ),
            ),
            info,
        );
    }

    // ------------------------------------------------------------------ G1 the two parse entry points
    for inst in &m.insts {
        if let (Some(_), Some(facts)) = (&inst.text, &inst.facts) {
            info.g1_entry_points_compared += 1;
            if let Some((a, b, msg)) = &facts.plain_parse_bad_span {
                soft!(info, focus, viol(
                    "S1",
                    C12,
                    "plain-parse-span",
                    format!(
                        "`{}` (length {}): the plain entry point `SourceFile::parse` reports `{}` with range {}..{}, which is not a valid span of the text",
                        inst.target, inst.text.as_ref().map_or(0, |t| t.len()), msg, a, b
                    ),
                ));
            }
            if let Some((plain, checked)) = facts.plain_parse_differs {
                soft!(info, focus, viol(
                    "G1",
                    C11,
                    "syntactic-diagnostics-differ",
                    format!(
                        "`{}`: the lexer finds nothing in the delivered text, yet the lex-checked parse reports {} diagnostics and the plain parse (parser + validation) {}",
                        inst.target, checked, plain
                    ),
                ));
            }
        }
    }

    // ------------------------------------------------------------------ S3 on the delivered texts
    // Evaluated on the model's own parse of every delivered text, before anything else: a tree
    // with an ERROR node and no diagnostic is not gated, so the analyser runs on a broken tree
    // and may panic, which would otherwise hide the violation behind a skip.
    for inst in &m.insts {
        if let (Some(_), Some(facts)) = (&inst.text, &inst.facts) {
            if facts.have_parse && facts.has_error_node && facts.syn.is_empty() {
                soft!(info, focus, viol(
                    "S3",
                    C12,
                    "error-node-without-diagnostic",
                    format!(
                        "`{}`: the tree of the delivered text has an ERROR node or token but the parse reports no diagnostic",
                        inst.target
                    ),
                ));
            }
        }
    }

    // ------------------------------------------------------------------ containment / R1
    let obs: &Obs = match &run.result {
        RunResult::Budget => {
            let class = if m.insts.iter().any(|i| i.depth > 8) {
                "budget/include-recursion"
            } else {
                "budget/seam-calls"
            };
            return (
                viol(
                    "R1",
                    C18,
                    class,
                    format!(
                        "the run did not finish within its budget of {} seam calls ({} file instances expanded, depth {})",
                        w.budget, m.insts.len(), info.max_depth
                    ),
                ),
                info,
            );
        }
        RunResult::Panic(msg) => {
            info.panic_msg = Some(msg.clone());
            if msg.contains("Unable to read OpenQASM source file") && m.main_unreadable {
                // documented behaviour of the file entry points, outside C18's statement
                return (Verdict::Skip("main_unreadable"), info);
            }
            if m.parser_panic.is_some() {
                return (Verdict::Skip("oracle_parser_panic"), info);
            }
            // step 1: every delivered text parses without panicking on its own?
            for c in &run.history {
                if let (Op::Read, Out::Text(t)) = (c.op, &c.out) {
                    if m.facts_of(t).is_err() {
                        return (Verdict::Skip("oracle_parser_panic"), info);
                    }
                }
            }
            if let Some(t) = w.entry_text() {
                if m.facts_of(t).is_err() {
                    return (Verdict::Skip("oracle_parser_panic"), info);
                }
            }
            let class = panic_class(msg);
            if msg.contains("include_error.is_some()") {
                // O1: file vanished between a successful read and canonicalize (opt-in fault)
                return (
                    viol("R1", C18, "panic/canonicalize-race", format!("panic: {}", msg)),
                    info,
                );
            }
            // step 2: some delivered file has a syntax diagnostic => gated, no analysis may run
            if m.any_syntax {
                let sig = if m.unusable_include {
                    "panic/include-without-path".to_string()
                } else {
                    format!("panic/gated/{}", class)
                };
                return (
                    viol(
                        "R1",
                        &["C18", "C11"],
                        &sig,
                        format!("a delivered file has a syntax diagnostic (gated run), yet the front end panicked: {}", msg),
                    ),
                    info,
                );
            }
            // step 3a: the panic happened before all expected files were read: only the lexer,
            // the parser (excluded by step 1) and the include layer run in that phase
            if m.truncated {
                let sig = if m.unusable_include {
                    "panic/include-without-path".to_string()
                } else {
                    format!("panic/include-layer/{}", class)
                };
                return (
                    viol(
                        "R1",
                        C18,
                        &sig,
                        format!("panic while reading included files (no delivered file has a syntax diagnostic): {}", msg),
                    ),
                    info,
                );
            }
            if !m.r2.is_empty() {
                return (
                    viol("R2", C18, &m.r2[0].0.clone(), m.r2[0].1.clone()),
                    info,
                );
            }
            // step 3b: the reference run on the flattened text decides
            let r = run_reference(&m.flat);
            if let RunResult::Panic(_) = r.result {
                // Both panic. If the flattened text has `include` statements below global scope,
                // decide whether they are what makes the analyser panic: replace each of them by
                // the harmless statement `end;` and analyse again. "An include below global scope
                // is reported, and none of these cases panics" is C18's own clause, so a panic
                // that disappears with the nested includes is a violation, not a skip.
                let flat = m.flat.clone();
                if let Ok(ff) = m.facts_of(&flat) {
                    if !ff.nested_includes.is_empty() {
                        let mut t = flat.clone();
                        let mut ranges = ff.nested_includes.clone();
                        ranges.sort();
                        for (s, e) in ranges.iter().rev() {
                            t.replace_range(*s..*e, "end;");
                        }
                        if let RunResult::Returned(_) = run_reference(&t).result {
                            return (
                                viol(
                                    "R1",
                                    C18,
                                    "panic/include-below-global-scope",
                                    format!(
                                        "the front end panics because of an include statement below global scope (the same text with those statements replaced by `end;` is analysed without panic): {}",
                                        msg
                                    ),
                                ),
                                info,
                            );
                        }
                    }
                }
            }
            // guard R0 also applies here: if the flattened text does not parse into the same
            // statements as the files do (parser context dependence, C16), the reference says
            // nothing about this panic
            if let RunResult::Returned(ro) = &r.result {
                if ro.any_syntax {
                    return (Verdict::Skip("skipped_parser_context"), info);
                }
                let flat = m.flat.clone();
                match m.facts_of(&flat) {
                    Ok(ff) => {
                        let got: Vec<(oq3_syntax::SyntaxKind, &str)> =
                            ff.top.iter().map(|s| (s.kind, &flat[s.start..s.end])).collect();
                        let want: Vec<(oq3_syntax::SyntaxKind, &str)> =
                            m.expected_stmts.iter().map(|(k, t)| (*k, t.as_str())).collect();
                        if got != want {
                            return (Verdict::Skip("skipped_parser_context"), info);
                        }
                    }
                    Err(_) => return (Verdict::Skip("oracle_parser_panic"), info),
                }
            }
            return match r.result {
                RunResult::Panic(_) => (Verdict::Skip("reference_undefined"), info),
                _ => (
                    viol(
                        "R1",
                        C18,
                        &format!("panic/analysis/{}", class),
                        format!("the front end panicked on the project but not on its textual inclusion: {}", msg),
                    ),
                    info,
                ),
            };
        }
        RunResult::Returned(o) => o,
    };
    if !built {
        // main unreadable but the call returned: impossible today; treat as unexplained
        return (Verdict::Skip("main_unreadable"), info);
    }
    if let Some(_msg) = &m.parser_panic {
        return (Verdict::Skip("oracle_parser_panic"), info);
    }

    // ------------------------------------------------------------------ R2 search order
    if m.truncated {
        m.r2.push((
            "missing-call".into(),
            "the history ends before all expected probes/reads were made".into(),
        ));
    }
    if m.r2.is_empty() && !m.history_fully_explained() {
        let c = m.unexplained_call().unwrap();
        m.r2.push((
            "unexplained-call".into(),
            format!(
                "seam call #{} {} `{}` is not required by any include statement (stdgates.inc, includes below global scope and files without a tree must cause none)",
                c.seq, c.op.name(), c.path
            ),
        ));
    }
    if let Some((class, detail)) = m.r2.first() {
        return (viol("R2", C18, class, detail.clone()), info);
    }
    // independent check of path values against the generator's record (pristine files only)
    for i in 0..m.insts.len() {
        if let (Some(meta), Some(facts)) = (m.meta_of(i), m.insts[i].facts.clone()) {
            if !facts.have_parse || !facts.syn.is_empty() {
                continue;
            }
            let parsed: Vec<(usize, Option<String>)> = facts
                .top
                .iter()
                .filter_map(|s| s.include.as_ref().map(|inc| (s.start, inc.value.clone())))
                .collect();
            if parsed.len() != meta.includes.len()
                || parsed.iter().zip(&meta.includes).any(|(a, b)| a.0 != b.0)
            {
                return (Verdict::Skip("harness_include_record_mismatch"), info);
            }
            for (a, b) in parsed.iter().zip(&meta.includes) {
                if a.1 != b.1 {
                    return (
                        viol(
                            "R2",
                            C18,
                            "path-value",
                            format!(
                                "include at offset {}: path evaluates to {:?}, the text spells {:?}",
                                a.0, a.1, b.1
                            ),
                        ),
                        info,
                    );
                }
            }
        }
    }

    // ------------------------------------------------------------------ per-file: R7, G1, S1, S3
    fn walk_files<'m>(
        m: &Model<'m>,
        i: usize,
        f: &SynFile,
        info: &mut RunInfo,
        focus: Option<&str>,
    ) -> Option<Verdict> {
        let inst = &m.insts[i];
        if f.children.len() != inst.children.len() {
            return Some(viol(
                "R7",
                C18,
                "tree-shape",
                format!(
                    "file `{}` has {} parsed included files, its text has {} include statements to expand",
                    f.path, f.children.len(), inst.children.len()
                ),
            ));
        }
        if !f.accessors_agree {
            return Some(viol(
                "R7",
                C18,
                "accessors-disagree",
                format!(
                    "included source `{}`: `ast()` / `included_files()` disagree with `syntax_ast()` / `included()`",
                    f.path
                ),
            ));
        }
        if !inst.tags_ok.contains(&f.path) {
            return Some(viol(
                "R7",
                C18,
                "path-tag",
                format!("parsed source is tagged `{}`, expected one of {:?}", f.path, inst.tags_ok),
            ));
        }
        match &inst.text {
            None => {
                if f.has_ast || !f.errors.is_empty() {
                    return Some(viol(
                        "R7",
                        C18,
                        "ast-for-unread-file",
                        format!("`{}` could not be read but carries a parse result", f.path),
                    ));
                }
                if !inst.refused_recursive {
                    if let Some(k) = &inst.io_kind {
                        if f.include_error.as_deref() != Some(k.as_str()) {
                            return Some(viol(
                                "R7",
                                C18,
                                "include-error-kind",
                                format!(
                                    "`{}`: recorded include error {:?}, the read failed with {}",
                                    f.path, f.include_error, k
                                ),
                            ));
                        }
                    }
                }
                if f.include_error.is_none() {
                    return Some(viol(
                        "R7",
                        C18,
                        "include-error-missing",
                        format!("`{}` was not read but no include error is recorded", f.path),
                    ));
                }
            }
            Some(text) => {
                let facts = inst.facts.as_ref().unwrap();
                if !f.has_ast || f.include_error.is_some() {
                    // also C11's subject when the text that was delivered has syntax diagnostics:
                    // a file that is not even lexed cannot have its malformed lexemes diagnosed
                    // nor gate the later stages
                    let props: &[&'static str] = if facts.syn.is_empty() { C18 } else { &["C18", "C11"] };
                    return Some(viol(
                        "R7",
                        props,
                        "no-ast-for-read-file",
                        format!(
                            "`{}` was read successfully ({} bytes delivered, {} syntax diagnostics when parsed alone) but has no parse result",
                            f.path, text.len(), facts.syn.len()
                        ),
                    ));
                }
                // G1: tree iff no lexical diagnostic
                let lex_clean = facts.lex.is_empty();
                if f.have_parse != lex_clean {
                    soft_f!(info, focus, viol(
                        "G1",
                        C11,
                        "tree-iff-no-lexical-diagnostic",
                        format!(
                            "`{}`: a tree is {} although the lexer reports {} diagnostics",
                            f.path,
                            if f.have_parse { "returned" } else { "withheld" },
                            facts.lex.len()
                        ),
                    ));
                }
                if !lex_clean {
                    let got: Vec<(usize, usize)> = f.errors.iter().map(|e| (e.start, e.end)).collect();
                    let want: Vec<(usize, usize)> = facts.lex.iter().map(|e| (e.0, e.1)).collect();
                    if got != want {
                        soft_f!(info, focus, viol(
                            "G1",
                            C11,
                            "lexical-diagnostics-only",
                            format!(
                                "`{}` has no tree; its diagnostics {:?} are not exactly the lexical ones {:?}",
                                f.path, got, want
                            ),
                        ));
                    }
                }
                // the diagnostics of this file are those of parsing *this* text
                if f.errors != facts.syn {
                    return Some(viol(
                        "R7",
                        C18,
                        "syntax-diagnostics-of-other-text",
                        format!(
                            "`{}`: syntax diagnostics {:?} differ from those of the delivered text {:?}",
                            f.path, f.errors, facts.syn
                        ),
                    ));
                }
                // the printer's view (ErrorTrait) of these diagnostics is the same as the inherent one
                let inherent: Vec<(usize, usize, String)> =
                    f.errors.iter().map(|e| (e.start, e.end, e.msg.clone())).collect();
                if f.trait_view != inherent {
                    soft_f!(info, focus, viol(
                        "S1",
                        C12,
                        "trait-view",
                        format!(
                            "`{}`: ErrorTrait::range()/message() of the syntax diagnostics {:?} differ from SyntaxError::range()/message() {:?}",
                            f.path, f.trait_view, inherent
                        ),
                    ));
                }
                // S1 spans
                for e in &f.errors {
                    info.s1_checked += 1;
                    if !span_ok(text, e.start, e.end) {
                        soft_f!(info, focus, viol(
                            "S1",
                            C12,
                            "syntax-span",
                            format!(
                                "`{}` (length {}): syntax diagnostic `{}` has range {}..{}",
                                f.path, text.len(), e.msg, e.start, e.end
                            ),
                        ));
                    }
                    if e.end == text.len() {
                        info.diag_at_eof += 1;
                    }
                    if e.start > 0 && !text.is_char_boundary(e.start - 1) {
                        info.diag_after_multibyte += 1;
                    }
                }
                // S3 error nodes
                if f.have_parse {
                    if let Some(l) = f.tree_text_len {
                        if l != text.len() {
                            soft_f!(info, focus, viol(
                                "S1",
                                C12,
                                "tree-length",
                                format!("`{}`: tree spells {} bytes, text has {}", f.path, l, text.len()),
                            ));
                        }
                    }
                    if f.has_error_node && f.errors.is_empty() {
                        soft_f!(info, focus, viol(
                            "S3",
                            C12,
                            "error-node-without-diagnostic",
                            format!("`{}`: the tree has an ERROR node but there is no diagnostic", f.path),
                        ));
                    }
                }
            }
        }
        for (k, c) in inst.children.iter().enumerate() {
            if let Some(v) = walk_files(m, *c, &f.children[k], info, focus) {
                return Some(v);
            }
        }
        None
    }
    if let Some(v) = walk_files(&m, 0, &obs.files, &mut info, focus) {
        return (v, info);
    }

    // ------------------------------------------------------------------ G3 torn lexemes
    if let Some(v) = g3_damaged_lexemes(w, &m, &mut info, focus) {
        return (v, info);
    }

    // ------------------------------------------------------------------ G2 / R5 gating
    let expect_gated = m.any_syntax;
    if obs.any_syntax != expect_gated {
        let props: &[&'static str] = &["C11", "C18"];
        return (
            viol(
                "G2",
                props,
                "flag",
                format!(
                    "any_syntax_errors() = {}, but {} delivered file(s) carry syntax diagnostics",
                    obs.any_syntax,
                    m.insts.iter().filter(|i| i.facts.as_ref().is_some_and(|f| !f.syn.is_empty())).count()
                ),
            ),
            info,
        );
    }
    if obs.have_syntax_errors_trait != expect_gated
        || obs.num_syntax_errors != m.total_syntax_errors
        || obs.all_syntax_errors_count != m.total_syntax_errors
    {
        return (
            viol(
                "G2",
                C11,
                "counts",
                format!(
                    "have_syntax_errors()={} num_syntax_errors()={} all_syntax_errors().count()={}; the delivered files carry {} syntax diagnostics",
                    obs.have_syntax_errors_trait, obs.num_syntax_errors, obs.all_syntax_errors_count, m.total_syntax_errors
                ),
            ),
            info,
        );
    }
    let mut lists = vec![];
    flatten_lists(&obs.lists, &mut lists);
    for l in &lists {
        for d in &l.diags {
            info.sem_diag_kinds.insert(
                d.kind.split('(').next().unwrap_or("").to_string(),
            );
        }
    }
    if expect_gated {
        info.gated_by_depth = m
            .insts
            .iter()
            .filter(|i| i.facts.as_ref().is_some_and(|f| !f.syn.is_empty()))
            .map(|i| i.depth)
            .max();
        let leaked = !obs.program.stmts().is_empty()
            || obs.symtab != SymbolTable::new()
            || lists.iter().any(|l| !l.diags.is_empty())
            || obs.any_semantic;
        if leaked {
            return (
                viol(
                    "G2",
                    &["C11", "C18"],
                    "leak",
                    format!(
                        "a delivered file has a syntax diagnostic, yet the result is not empty: {} statements, {} semantic diagnostics, symbol table {} the initial one",
                        obs.program.stmts().len(),
                        lists.iter().map(|l| l.diags.len()).sum::<usize>(),
                        if obs.symtab == SymbolTable::new() { "equals" } else { "differs from" }
                    ),
                ),
                info,
            );
        }
        return (Verdict::Ok { full: false, gated: true }, info);
    }

    // ------------------------------------------------------------------ reference run
    let r = run_reference(&m.flat);
    // (canonicalize calls are not constrained anywhere, see R2)
    if let Some(c) = r.history.iter().find(|c| c.op != Op::Canon) {
        return (
            viol(
                "R2",
                C18,
                "reference-touches-environment",
                format!(
                    "the flattened text has no file include left, yet analysing it made seam call {} `{}`",
                    c.op.name(), c.path
                ),
            ),
            info,
        );
    }
    let robs = match &r.result {
        RunResult::Returned(o) => o,
        RunResult::Panic(msg) => {
            return (viol(
                    "R3",
                    C18,
                    &format!("reference-panics/{}", panic_class(msg)),
                    format!("the project is analysed without panic but its textual inclusion panics: {}", msg),
                ), info);
        }
        RunResult::Budget => return (Verdict::Skip("reference_budget"), info),
    };
    // R0 guard: parser context dependence (C16) must not be blamed on the include mechanism
    if robs.any_syntax {
        return (Verdict::Skip("skipped_parser_context"), info);
    }
    match m.facts_of(&m.flat.clone()) {
        Ok(ff) => {
            let flat = m.flat.clone();
            let got: Vec<(oq3_syntax::SyntaxKind, &str)> =
                ff.top.iter().map(|s| (s.kind, &flat[s.start..s.end])).collect();
            let want: Vec<(oq3_syntax::SyntaxKind, &str)> = m
                .expected_stmts
                .iter()
                .map(|(k, t)| (*k, t.as_str()))
                .collect();
            if got != want {
                return (Verdict::Skip("skipped_parser_context"), info);
            }
        }
        Err(_) => return (Verdict::Skip("oracle_parser_panic"), info),
    }

    // ------------------------------------------------------------------ R3 as-if
    if obs.program != robs.program {
        let a = obs.program.stmts();
        let b = robs.program.stmts();
        let first = a.iter().zip(b.iter()).position(|(x, y)| x != y).unwrap_or(a.len().min(b.len()));
        soft!(info, focus, viol(
                "R3",
                C18,
                "program",
                format!(
                    "program() has {} statements, textual inclusion gives {}; first difference at statement #{}:\n  got      {:?}\n  expected {:?}",
                    a.len(), b.len(), first, a.get(first), b.get(first)
                ),
            ));
    }
    if obs.symtab != robs.symtab {
        soft!(info, focus, viol(
                "R3",
                C18,
                "symbol-table",
                "symbol_table() differs from the one textual inclusion gives".into(),
            ));
    }

    if obs.const_values != robs.const_values || obs.pending_annotations != robs.pending_annotations {
        soft!(info, focus, viol(
            "R3",
            C18,
            "context-side-tables",
            format!(
                "the analysis context differs from the one textual inclusion gives: {} constant values (expected {}), {} pending annotations (expected {})",
                obs.const_values.len(), robs.const_values.len(), obs.pending_annotations, robs.pending_annotations
            ),
        ));
    }

    // ------------------------------------------------------------------ R4 diagnostics per file
    let order = m.dfs();
    fn shape_ok(m: &Model, i: usize, l: &ListTree) -> Result<(), String> {
        if l.children.len() != m.insts[i].children.len() {
            return Err(format!(
                "list `{}` has {} child lists, the file has {} include statements to expand",
                l.tag, l.children.len(), m.insts[i].children.len()
            ));
        }
        for (k, c) in m.insts[i].children.iter().enumerate() {
            shape_ok(m, *c, &l.children[k])?;
        }
        Ok(())
    }
    if let Err(e) = shape_ok(&m, 0, &obs.lists) {
        return (viol("R4", C18, "list-tree-shape", e), info);
    }
    for (k, i) in order.iter().enumerate() {
        if !m.insts[*i].tags_ok.contains(&lists[k].tag) {
            soft!(info, focus, viol(
                "R4",
                C18,
                "list-tag",
                format!(
                    "diagnostic list #{} is tagged `{}`, expected one of {:?}",
                    k, lists[k].tag, m.insts[*i].tags_ok
                ),
            ));
            // C12: the diagnostics in this list refer to the text of the file named by the tag
            if !lists[k].diags.is_empty() {
                soft!(info, focus, viol(
                    "S2",
                    C12,
                    "filed-under-wrong-path",
                    format!(
                        "{} diagnostics whose ranges fit the text of {:?} are filed under `{}`, which does not name that file",
                        lists[k].diags.len(), m.insts[*i].tags_ok.first(), lists[k].tag
                    ),
                ));
            }
        }
    }
    // expected diagnostics per instance: reference diagnostics mapped through the segment map
    let mut expected: Vec<Vec<Diag>> = m.insts.iter().map(|_| vec![]).collect();
    if !robs.lists.children.is_empty() {
        return (Verdict::Skip("reference_has_child_lists"), info);
    }
    info.ref_diags = robs.lists.diags.len();
    for d in &robs.lists.diags {
        match m.map_range(d.start, d.end) {
            Some((inst, s, e)) => expected[inst].push(Diag {
                kind: d.kind.clone(),
                start: s,
                end: e,
                text: None,
            }),
            None => return (Verdict::Skip("ref_diag_unmappable"), info),
        }
    }
    // read-failure diagnostics: exactly one per failing include site, on the include's path,
    // filed with the including file (or with the included path: accepted by R4, judged by S2)
    let mut fail_sites: Vec<(usize, usize, Diag)> = vec![]; // (parent, child, diag)
    for (ci, inst) in m.insts.iter().enumerate() {
        if let (Some(p), None) = (inst.parent, &inst.text) {
            fail_sites.push((
                p,
                ci,
                Diag {
                    kind: inst.fail_kind.clone().unwrap_or_default(),
                    start: inst.site_path_range.0,
                    end: inst.site_path_range.1,
                    text: None,
                },
            ));
        }
    }
    let pos_of: BTreeMap<usize, usize> = order.iter().enumerate().map(|(k, i)| (*i, k)).collect();
    let is_failure_kind = |k: &str| {
        matches!(k, "FileNotFound" | "PermissionDenied" | "IsADirectory" | "InvalidFilename" | "IOError")
    };
    for (k, i) in order.iter().enumerate() {
        let got: Vec<Diag> = lists[k]
            .diags
            .iter()
            .map(|d| Diag { text: None, ..d.clone() })
            .collect();
        // take the failure diagnostics of include sites of this file out of `got`
        let mut rest: Vec<Diag> = vec![];
        let mut my_fail: Vec<&(usize, usize, Diag)> =
            fail_sites.iter().filter(|(p, _, _)| p == i).collect();
        let mut child_fail: Vec<&(usize, usize, Diag)> =
            fail_sites.iter().filter(|(_, c, _)| c == i).collect();
        let mut positions_ok = true;
        let mut my_unusable: Vec<(usize, usize)> = m
            .unusable_sites
            .iter()
            .filter(|(inst, _, _)| inst == i)
            .map(|(_, s, e)| (*s, *e))
            .collect();
        for d in got.iter() {
            if is_failure_kind(&d.kind) {
                if let Some(ix) = my_unusable.iter().position(|(s, e)| d.start >= *s && d.end <= *e) {
                    my_unusable.remove(ix);
                    continue;
                }
            }
            let matches_site = |site: &&(usize, usize, Diag)| {
                site.2.start == d.start
                    && site.2.end == d.end
                    && if site.2.kind.is_empty() { is_failure_kind(&d.kind) } else { site.2.kind == d.kind }
            };
            if let Some(ix) = my_fail.iter().position(matches_site) {
                // position: after all diagnostics of earlier statements, before later ones
                let site = my_fail.remove(ix);
                let stmt_start = m.insts[site.1].site_stmt_start;
                if rest.iter().any(|x| x.start > stmt_start && !is_failure_kind(&x.kind)) {
                    positions_ok = false;
                }
                continue;
            }
            if let Some(ix) = child_fail.iter().position(matches_site) {
                child_fail.remove(ix);
                // filed under the included path: tolerated here (S2 judges the span)
                continue;
            }
            rest.push(d.clone());
        }
        if let Some((us, ue)) = my_unusable.first() {
            soft!(info, focus, viol(
                    "R4",
                    C18,
                    "unusable-include-unreported",
                    format!(
                        "list `{}`: the include statement at {}..{} has no usable path and is neither expanded nor reported",
                        lists[k].tag, us, ue
                    ),
                ));
        }
        // a failing site must be reported exactly once, in the parent's or the child's list
        for site in my_fail {
            let child_pos = pos_of[&site.1];
            let in_child = lists[child_pos].diags.iter().any(|d| {
                d.start == site.2.start
                    && d.end == site.2.end
                    && if site.2.kind.is_empty() { is_failure_kind(&d.kind) } else { site.2.kind == d.kind }
            });
            if !in_child {
                soft!(info, focus, viol(
                        "R4",
                        C18,
                        "read-failure-unreported",
                        format!(
                            "include of `{}` could not be read ({}), but no {} diagnostic on the include's path {}..{} is filed with the including file",
                            m.insts[site.1].target,
                            m.insts[site.1].io_kind.clone().unwrap_or_else(|| "refused".into()),
                            if site.2.kind.is_empty() { "read-failure" } else { &site.2.kind },
                            site.2.start, site.2.end
                        ),
                    ));
            }
        }
        if rest != expected[*i] {
            let first = rest.iter().zip(expected[*i].iter()).position(|(a, b)| a != b).unwrap_or(rest.len().min(expected[*i].len()));
            soft!(info, focus, viol(
                    "R4",
                    C18,
                    "diagnostics",
                    format!(
                        "list `{}`: {} diagnostics, textual inclusion gives {} for this file; first difference at #{}: got {:?}, expected {:?}",
                        lists[k].tag, rest.len(), expected[*i].len(), first, rest.get(first), expected[*i].get(first)
                    ),
                ));
        }
        if !positions_ok {
            soft!(info, focus, viol(
                    "R4",
                    C18,
                    "read-failure-position",
                    format!("list `{}`: a read-failure diagnostic is not filed at the position of its include statement", lists[k].tag),
                ));
        }
    }

    // the summary flag agrees with the tree of lists (it must look into included files' lists)
    let any_listed = lists.iter().any(|l| !l.diags.is_empty());
    if obs.any_semantic != any_listed {
        soft!(info, focus, viol(
            "R4",
            C18,
            "any-semantic-errors-flag",
            format!(
                "any_semantic_errors() = {}, but the tree of diagnostic lists {} diagnostics",
                obs.any_semantic,
                if any_listed { "holds" } else { "holds no" }
            ),
        ));
    }

    // ------------------------------------------------------------------ S2 semantic spans
    for l in &lists {
        let inherent: Vec<(usize, usize, String)> =
            l.diags.iter().map(|d| (d.start, d.end, d.kind.clone())).collect();
        if l.trait_view != inherent {
            soft!(info, focus, viol(
                "S2",
                C12,
                "trait-view",
                format!(
                    "list `{}`: ErrorTrait::range()/message() of the semantic diagnostics {:?} differ from SemanticError::range()/kind() {:?}",
                    l.tag, l.trait_view, inherent
                ),
            ));
        }
    }
    for (k, i) in order.iter().enumerate() {
        let inst = &m.insts[*i];
        match (&inst.text, &inst.facts) {
            (Some(t), Some(facts)) => {
                for d in &lists[k].diags {
                    info.s2_checked += 1;
                    if !span_ok(t, d.start, d.end) {
                        soft!(info, focus, viol(
                                "S2",
                                C12,
                                "semantic-span",
                                format!(
                                    "list `{}` (text length {}): {} has range {}..{}",
                                    lists[k].tag, t.len(), d.kind, d.start, d.end
                                ),
                            ));
                    }
                    if d.text.as_deref() != Some(&t[d.start..d.end]) {
                        soft!(info, focus, viol(
                                "S2",
                                C12,
                                "node-text",
                                format!(
                                    "list `{}`: {} at {}..{} prints node text {:?}, the file has {:?} there",
                                    lists[k].tag, d.kind, d.start, d.end, d.text, &t[d.start..d.end]
                                ),
                            ));
                    }
                    if facts.node_ranges.binary_search(&(d.start, d.end)).is_err() {
                        soft!(info, focus, viol(
                                "S2",
                                C12,
                                "not-a-node",
                                format!(
                                    "list `{}`: {} has range {}..{}, which is not the range of a node of that file's tree",
                                    lists[k].tag, d.kind, d.start, d.end
                                ),
                            ));
                    }
                    if d.end == t.len() {
                        info.diag_at_eof += 1;
                    }
                    if d.start > 0 && !t.is_char_boundary(d.start - 1) {
                        info.diag_after_multibyte += 1;
                    }
                }
            }
            _ => {
                if !lists[k].diags.is_empty() {
                    soft!(info, focus, viol(
                            "S2",
                            C12,
                            "diagnostic-without-text",
                            format!(
                                "list `{}` belongs to a file that was not read, yet holds {} diagnostics whose ranges refer to no text",
                                lists[k].tag, lists[k].diags.len()
                            ),
                        ));
                }
            }
        }
    }

    // ------------------------------------------------------------------ R8 includes below global scope
    for (k, i) in order.iter().enumerate() {
        if let Some(facts) = &m.insts[*i].facts {
            for (s, e) in &facts.nested_includes {
                let n = lists[k]
                    .diags
                    .iter()
                    // located on the statement or on a part of it (its path literal, say)
                    .filter(|d| d.kind == "IncludeNotInGlobalScopeError" && d.start >= *s && d.end <= *e)
                    .count();
                if n != 1 {
                    soft!(info, focus, viol(
                            "R8",
                            C18,
                            "nested-include-report",
                            format!(
                                "list `{}`: include statement below global scope at {}..{} is reported {} times",
                                lists[k].tag, s, e, n
                            ),
                        ));
                }
            }
        }
    }

    // ------------------------------------------------------------------ R6 standard library
    if m.std_included_top {
        let mut declared = BTreeSet::new();
        for inst in &m.insts {
            if let Some(t) = &inst.text {
                names_declared_in(t, &mut declared);
            }
        }
        for (name, np, nq) in STDGATES {
            if declared.contains(*name) {
                continue;
            }
            info.r6_names_checked += 1;
            let ok = match obs.symtab.lookup(name) {
                Ok(rec) => *rec.symbol_type() == Type::Gate(*np, *nq),
                Err(_) => false,
            };
            // as if the library's text had been written there: one definition per name, however
            // often the library is included (a second definition is a redeclaration and binds nothing)
            let n_symbols = obs.symtab.gates().filter(|g| g.0 == *name).count();
            if ok && n_symbols != 1 {
                soft!(info, focus, viol(
                        "R6",
                        C18,
                        "standard-gate-symbols",
                        format!(
                            "the project declares nothing called `{}` and includes the standard library; the symbol table lists {} gate symbols of that name, expected 1",
                            name, n_symbols
                        ),
                    ));
            }
            if !ok {
                soft!(info, focus, viol(
                        "R6",
                        C18,
                        "standard-gate",
                        format!(
                            "after `include \"stdgates.inc\";` the name `{}` does not resolve to a gate with {} parameters and {} qubits",
                            name, np, nq
                        ),
                    ));
            }
        }
    }

    // a gate named like a standard one that is the first statement of the main text keeps its
    // binding: the library's definition of that name, wherever it is included, is a redeclaration
    if let Some((name, np, nq)) = m.insts.first().and_then(|i| i.text.as_deref()).and_then(leading_user_gate) {
        if STDGATES.iter().any(|g| g.0 == name) {
            info.r6_user_first += 1;
            let ok = match obs.symtab.lookup(&name) {
                Ok(rec) => *rec.symbol_type() == Type::Gate(np, nq),
                Err(_) => false,
            };
            if !ok {
                soft!(info, focus, viol(
                        "R6",
                        C18,
                        "user-gate-rebound",
                        format!(
                            "the main text starts by defining gate `{}` with {} parameters and {} qubits; at the end the name resolves to {:?}",
                            name, np, nq, obs.symtab.lookup(&name).ok().map(|r| r.symbol_type().clone())
                        ),
                    ));
            }
        }
    }

    // ------------------------------------------------------------------ G2 "runs otherwise"
    let mut count = Some(0usize);
    for i in &order {
        if m.insts[*i].text.is_some() {
            match m.meta_of(*i) {
                Some(meta) => count = count.map(|c| c + meta.graph_stmts),
                None => count = None,
            }
        }
    }
    if let Some(c) = count {
        if obs.program.stmts().len() != c {
            soft!(info, focus, viol(
                    "G2",
                    C11,
                    "analysis-ran",
                    format!(
                        "no file has a syntax diagnostic; the project spells {} statements that yield a graph statement, program() has {}",
                        c, obs.program.stmts().len()
                    ),
                ));
        }
    }

    (Verdict::Ok { full: true, gated: false }, info)
}
