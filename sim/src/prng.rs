//! The only source of randomness of the simulators: xoshiro256** seeded through SplitMix64.
//! Every choice of a run (world, fault plan, workload) is drawn from one `Rng` whose seed is
//! `mix(mix(VERIF_SEED, stream), run_index)`, so a run is a pure function of three integers.

#[derive(Clone, Debug)]
pub struct Rng {
    s: [u64; 4],
    /// number of draws so far (reported in traces; never influences a draw)
    pub draws: u64,
}

fn splitmix(x: &mut u64) -> u64 {
    *x = x.wrapping_add(0x9E37_79B9_7F4A_7C15);
    let mut z = *x;
    z = (z ^ (z >> 30)).wrapping_mul(0xBF58_476D_1CE4_E5B9);
    z = (z ^ (z >> 27)).wrapping_mul(0x94D0_49BB_1331_11EB);
    z ^ (z >> 31)
}

/// Combine two integers into a new seed.
pub fn mix(a: u64, b: u64) -> u64 {
    let mut x = a ^ b.wrapping_mul(0xD6E8_FEB8_6659_FD93);
    let y = splitmix(&mut x);
    y ^ splitmix(&mut x).rotate_left(17)
}

/// Stable 64-bit FNV-1a hash (used for digests and stream names; no std hasher, no random state).
pub fn fnv1a(bytes: &[u8]) -> u64 {
    let mut h: u64 = 0xcbf2_9ce4_8422_2325;
    for b in bytes {
        h ^= *b as u64;
        h = h.wrapping_mul(0x0000_0100_0000_01B3);
    }
    h
}

impl Rng {
    pub fn new(seed: u64) -> Rng {
        let mut x = seed;
        Rng {
            s: [
                splitmix(&mut x),
                splitmix(&mut x),
                splitmix(&mut x),
                splitmix(&mut x),
            ],
            draws: 0,
        }
    }

    pub fn next(&mut self) -> u64 {
        self.draws += 1;
        let r = self.s[1].wrapping_mul(5).rotate_left(7).wrapping_mul(9);
        let t = self.s[1] << 17;
        self.s[2] ^= self.s[0];
        self.s[3] ^= self.s[1];
        self.s[1] ^= self.s[2];
        self.s[0] ^= self.s[3];
        self.s[2] ^= t;
        self.s[3] = self.s[3].rotate_left(45);
        r
    }

    /// Uniform in `0..n` (`0` when `n == 0`).
    pub fn below(&mut self, n: usize) -> usize {
        if n == 0 {
            0
        } else {
            (self.next() % n as u64) as usize
        }
    }

    /// Uniform in `lo..=hi`.
    pub fn range(&mut self, lo: usize, hi: usize) -> usize {
        lo + self.below(hi - lo + 1)
    }

    /// True with probability `num/den`.
    pub fn chance(&mut self, num: u32, den: u32) -> bool {
        (self.next() % den as u64) < num as u64
    }

    pub fn pick<'a, T>(&mut self, v: &'a [T]) -> &'a T {
        &v[self.below(v.len())]
    }

    pub fn pick_str<'a>(&mut self, v: &[&'a str]) -> &'a str {
        v[self.below(v.len())]
    }

    /// Index drawn with the given integer weights.
    pub fn weighted(&mut self, weights: &[u32]) -> usize {
        let total: u64 = weights.iter().map(|w| *w as u64).sum();
        if total == 0 {
            return 0;
        }
        let mut x = self.next() % total;
        for (i, w) in weights.iter().enumerate() {
            if x < *w as u64 {
                return i;
            }
            x -= *w as u64;
        }
        weights.len() - 1
    }
}
