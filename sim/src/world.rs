//! An explicit *world*: everything one simulated run of engine E1 depends on. A world is
//! self-contained (it does not refer to the generator), so a replay file that stores one keeps
//! reproducing after the generator changes.

use serde_json::{json, Map, Value};
use std::collections::BTreeMap;

#[derive(Clone, Debug, PartialEq)]
pub enum Node {
    Dir,
    File(Vec<u8>),
    /// symbolic link with its target as stored (absolute, or relative to the directory that
    /// holds the link); every operation of the seam follows links, as the real calls do
    Link(String),
}

/// Which public entry point of `oq3_semantics::syntax_to_semantics` is called.
#[derive(Clone, Debug, PartialEq)]
pub enum Entry {
    /// `parse_source_string_with_path_search(text, None, list)`
    StringSearch { text: String },
    /// `parse_source_string(text, None)` (only legal when `list` is `None`)
    StringPlain { text: String },
    /// `parse_source_file_with_search(path, list)`
    FileSearch { path: String },
    /// `parse_source_file(path)` (only legal when `list` is `None`)
    FilePlain { path: String },
}

impl Entry {
    pub fn is_file(&self) -> bool {
        matches!(self, Entry::FileSearch { .. } | Entry::FilePlain { .. })
    }
    pub fn api_name(&self) -> &'static str {
        match self {
            Entry::StringSearch { .. } => "parse_source_string_with_path_search",
            Entry::StringPlain { .. } => "parse_source_string",
            Entry::FileSearch { .. } => "parse_source_file_with_search",
            Entry::FilePlain { .. } => "parse_source_file",
        }
    }
}

/// A fault. Static faults are attached to a path, dynamic faults to the index of a seam call
/// of this run ("just before call `at` is served"), so they land inside operations.
#[derive(Clone, Debug, PartialEq)]
pub enum Fault {
    /// Static: reading the file at `path` fails with `errno`; `probe` overrides the answer of
    /// `is_file` for that path when given (an unreadable directory hides the file).
    ReadErr {
        path: String,
        errno: i32,
        probe: Option<bool>,
    },
    /// Dynamic: the node at `path` is removed (file or whole directory subtree).
    Remove { at: usize, path: String },
    /// Dynamic: a file with `bytes` appears at `path` (creating or replacing).
    Put {
        at: usize,
        path: String,
        bytes: Vec<u8>,
    },
    /// Dynamic: if call `at` is a read, it fails with `errno`.
    ReadErrAt { at: usize, errno: i32 },
    /// Dynamic: if call `at` is a read, only the first `keep` bytes are delivered (short read
    /// of a file that is being written; cutting inside a UTF-8 sequence gives `InvalidData`).
    ShortReadAt { at: usize, keep: usize },
    /// Dynamic: if call `at` is a read, byte `offset` of what is delivered is replaced.
    FlipAt { at: usize, offset: usize, byte: u8 },
    /// Dynamic: if call `at` is a read, the bytes from `from` on are delivered as NUL.
    ZeroTailAt { at: usize, from: usize },
    /// Dynamic: if call `at` is an existence probe, it answers `false` (failing `stat`).
    ProbeFalseAt { at: usize },
    /// Dynamic: from call `at` on, `QASM3_PATH` has this value (the host changed its
    /// environment between two includes).
    EnvAt { at: usize, value: Option<String> },
}

impl Fault {
    pub fn kind(&self) -> &'static str {
        match self {
            Fault::ReadErr { errno, .. } => match *errno {
                crate::simfs::EACCES => "perm",
                crate::simfs::EIO => "eio",
                _ => "read_err",
            },
            Fault::Remove { .. } => "remove",
            Fault::Put { .. } => "put",
            Fault::ReadErrAt { .. } => "read_err_at",
            Fault::ShortReadAt { .. } => "short_read_at",
            Fault::FlipAt { .. } => "flip_at",
            Fault::ZeroTailAt { .. } => "zero_tail_at",
            Fault::ProbeFalseAt { .. } => "probe_false_at",
            Fault::EnvAt { .. } => "env_at",
        }
    }
    pub fn at(&self) -> Option<usize> {
        match self {
            Fault::ReadErr { .. } => None,
            Fault::Remove { at, .. }
            | Fault::Put { at, .. }
            | Fault::ReadErrAt { at, .. }
            | Fault::ShortReadAt { at, .. }
            | Fault::FlipAt { at, .. }
            | Fault::ZeroTailAt { at, .. }
            | Fault::ProbeFalseAt { at }
            | Fault::EnvAt { at, .. } => Some(*at),
        }
    }
}

/// What the generator knows about content damage it applied to a stored file (used by oracle
/// G3 and for the evidence; never needed to *execute* a world).
#[derive(Clone, Debug, PartialEq)]
pub struct Damage {
    pub path: String,
    /// "torn" | "zero_tail" | "flip" | "bad_utf8" | "is_dir" | "missing" | "notdir"
    pub kind: String,
    /// byte offset of the damage in the pristine content
    pub at: usize,
    /// For a tear inside a lexeme of a class the lexer must diagnose: (class, start offset of
    /// the lexeme). G3 then demands a lexical diagnostic on the token starting there.
    pub g3: Option<(String, usize)>,
}

/// Generator-side knowledge about a *pristine* (undamaged) file, used by the independent
/// oracles (R2 path values, G2 statement count, R8). Optional: a hand-written or minimised
/// world may leave it out, and the oracles that need it are then not evaluated.
#[derive(Clone, Debug, PartialEq, Default)]
pub struct FileMeta {
    /// top-level include statements in order: (byte offset of the statement, unescaped path
    /// value or None for a statement the generator made unusable on purpose)
    pub includes: Vec<(usize, Option<String>)>,
    /// number of top-level statements that yield a graph statement
    pub graph_stmts: usize,
    /// byte offsets of `include` statements below global scope
    pub nested_includes: Vec<usize>,
    /// statement boundaries (byte offsets where a top-level statement starts), for minimising
    pub stmt_starts: Vec<usize>,
}

#[derive(Clone, Debug, PartialEq)]
pub struct World {
    /// absolute normalised path -> node; parents of every node are present as `Dir`
    pub nodes: BTreeMap<String, Node>,
    /// absolute normalised path of the simulated working directory
    pub cwd: String,
    /// value of `QASM3_PATH`, if set
    pub env: Option<String>,
    /// search list handed to the entry point
    pub list: Option<Vec<String>>,
    pub entry: Entry,
    pub faults: Vec<Fault>,
    /// seam-call budget of the run (derived from the world by the generator)
    pub budget: usize,
    // ---- knowledge for oracles, not needed for execution ----
    pub damage: Vec<Damage>,
    /// keyed by absolute path of a stored file whose content is pristine; the entry text of a
    /// string entry point is keyed by ""
    pub meta: BTreeMap<String, FileMeta>,
    /// stratum / free-form notes of the generator
    pub notes: Vec<String>,
}

impl World {
    pub fn empty() -> World {
        let mut nodes = BTreeMap::new();
        nodes.insert("/".to_string(), Node::Dir);
        World {
            nodes,
            cwd: "/".into(),
            env: None,
            list: None,
            entry: Entry::StringPlain {
                text: String::new(),
            },
            faults: vec![],
            budget: 64,
            damage: vec![],
            meta: BTreeMap::new(),
            notes: vec![],
        }
    }

    /// Insert a directory and all its ancestors.
    pub fn mkdir_p(&mut self, path: &str) {
        let mut cur = String::new();
        self.nodes.entry("/".into()).or_insert(Node::Dir);
        for part in path.split('/').filter(|p| !p.is_empty()) {
            cur.push('/');
            cur.push_str(part);
            self.nodes.entry(cur.clone()).or_insert(Node::Dir);
        }
    }

    pub fn put_file(&mut self, path: &str, bytes: Vec<u8>) {
        if let Some(i) = path.rfind('/') {
            if i > 0 {
                self.mkdir_p(&path[..i]);
            }
        }
        self.nodes.insert(path.to_string(), Node::File(bytes));
    }

    pub fn put_link(&mut self, path: &str, target: &str) {
        if let Some(i) = path.rfind('/') {
            if i > 0 {
                self.mkdir_p(&path[..i]);
            }
        }
        self.nodes.insert(path.to_string(), Node::Link(target.to_string()));
    }

    pub fn entry_text(&self) -> Option<&str> {
        match &self.entry {
            Entry::StringSearch { text } | Entry::StringPlain { text } => Some(text),
            _ => None,
        }
    }
}

// ---------------------------------------------------------------------------------------------
// JSON

fn bytes_to_json(b: &[u8]) -> Value {
    match std::str::from_utf8(b) {
        Ok(s) => json!({ "text": s }),
        Err(_) => json!({ "hex": b.iter().map(|x| format!("{:02x}", x)).collect::<String>() }),
    }
}

fn bytes_from_json(v: &Value) -> Result<Vec<u8>, String> {
    if let Some(s) = v.get("text").and_then(|x| x.as_str()) {
        return Ok(s.as_bytes().to_vec());
    }
    if let Some(h) = v.get("hex").and_then(|x| x.as_str()) {
        if h.len() % 2 != 0 {
            return Err("odd hex length".into());
        }
        return (0..h.len() / 2)
            .map(|i| u8::from_str_radix(&h[2 * i..2 * i + 2], 16).map_err(|e| e.to_string()))
            .collect();
    }
    Err("file content needs `text` or `hex`".into())
}

fn get_str(v: &Value, k: &str) -> Result<String, String> {
    v.get(k)
        .and_then(|x| x.as_str())
        .map(|s| s.to_string())
        .ok_or_else(|| format!("missing string field `{}`", k))
}

fn get_usize(v: &Value, k: &str) -> Result<usize, String> {
    v.get(k)
        .and_then(|x| x.as_u64())
        .map(|s| s as usize)
        .ok_or_else(|| format!("missing integer field `{}`", k))
}

impl Fault {
    pub fn to_json(&self) -> Value {
        match self {
            Fault::ReadErr { path, errno, probe } => {
                json!({"kind":"read_err","path":path,"errno":errno,"probe":probe})
            }
            Fault::Remove { at, path } => json!({"kind":"remove","at":at,"path":path}),
            Fault::Put { at, path, bytes } => {
                json!({"kind":"put","at":at,"path":path,"content":bytes_to_json(bytes)})
            }
            Fault::ReadErrAt { at, errno } => json!({"kind":"read_err_at","at":at,"errno":errno}),
            Fault::ShortReadAt { at, keep } => json!({"kind":"short_read_at","at":at,"keep":keep}),
            Fault::FlipAt { at, offset, byte } => {
                json!({"kind":"flip_at","at":at,"offset":offset,"byte":byte})
            }
            Fault::ZeroTailAt { at, from } => json!({"kind":"zero_tail_at","at":at,"from":from}),
            Fault::ProbeFalseAt { at } => json!({"kind":"probe_false_at","at":at}),
            Fault::EnvAt { at, value } => json!({"kind":"env_at","at":at,"value":value}),
        }
    }

    pub fn from_json(v: &Value) -> Result<Fault, String> {
        let kind = get_str(v, "kind")?;
        Ok(match kind.as_str() {
            "read_err" => Fault::ReadErr {
                path: get_str(v, "path")?,
                errno: get_usize(v, "errno")? as i32,
                probe: v.get("probe").and_then(|x| x.as_bool()),
            },
            "remove" => Fault::Remove {
                at: get_usize(v, "at")?,
                path: get_str(v, "path")?,
            },
            "put" => Fault::Put {
                at: get_usize(v, "at")?,
                path: get_str(v, "path")?,
                bytes: bytes_from_json(v.get("content").ok_or("put needs content")?)?,
            },
            "read_err_at" => Fault::ReadErrAt {
                at: get_usize(v, "at")?,
                errno: get_usize(v, "errno")? as i32,
            },
            "short_read_at" => Fault::ShortReadAt {
                at: get_usize(v, "at")?,
                keep: get_usize(v, "keep")?,
            },
            "flip_at" => Fault::FlipAt {
                at: get_usize(v, "at")?,
                offset: get_usize(v, "offset")?,
                byte: get_usize(v, "byte")? as u8,
            },
            "zero_tail_at" => Fault::ZeroTailAt {
                at: get_usize(v, "at")?,
                from: get_usize(v, "from")?,
            },
            "probe_false_at" => Fault::ProbeFalseAt {
                at: get_usize(v, "at")?,
            },
            "env_at" => Fault::EnvAt {
                at: get_usize(v, "at")?,
                value: v.get("value").and_then(|x| x.as_str()).map(|s| s.to_string()),
            },
            other => return Err(format!("unknown fault kind `{}`", other)),
        })
    }
}

impl World {
    pub fn to_json(&self) -> Value {
        let mut files = Map::new();
        let mut links = Map::new();
        let mut dirs = vec![];
        for (p, n) in &self.nodes {
            match n {
                Node::Dir => dirs.push(Value::String(p.clone())),
                Node::File(b) => {
                    files.insert(p.clone(), bytes_to_json(b));
                }
                Node::Link(t) => {
                    links.insert(p.clone(), Value::String(t.clone()));
                }
            }
        }
        let entry = match &self.entry {
            Entry::StringSearch { text } => {
                json!({"api":"parse_source_string_with_path_search","text":text})
            }
            Entry::StringPlain { text } => json!({"api":"parse_source_string","text":text}),
            Entry::FileSearch { path } => json!({"api":"parse_source_file_with_search","path":path}),
            Entry::FilePlain { path } => json!({"api":"parse_source_file","path":path}),
        };
        let damage: Vec<Value> = self
            .damage
            .iter()
            .map(|d| {
                json!({"path":d.path,"kind":d.kind,"at":d.at,
                       "g3": d.g3.as_ref().map(|(c,s)| json!({"class":c,"lexeme_start":s}))})
            })
            .collect();
        let mut meta = Map::new();
        for (p, m) in &self.meta {
            meta.insert(
                p.clone(),
                json!({
                    "includes": m.includes.iter().map(|(o,v)| json!([o, v])).collect::<Vec<_>>(),
                    "graph_stmts": m.graph_stmts,
                    "nested_includes": m.nested_includes,
                    "stmt_starts": m.stmt_starts,
                }),
            );
        }
        json!({
            "cwd": self.cwd,
            "env_QASM3_PATH": self.env,
            "search_list": self.list,
            "entry": entry,
            "dirs": dirs,
            "files": files,
            "symlinks": links,
            "faults": self.faults.iter().map(|f| f.to_json()).collect::<Vec<_>>(),
            "seam_call_budget": self.budget,
            "damage": damage,
            "meta": meta,
            "notes": self.notes,
        })
    }

    pub fn from_json(v: &Value) -> Result<World, String> {
        let mut w = World::empty();
        w.cwd = get_str(v, "cwd")?;
        w.env = v
            .get("env_QASM3_PATH")
            .and_then(|x| x.as_str())
            .map(|s| s.to_string());
        w.list = match v.get("search_list") {
            Some(Value::Array(a)) => Some(
                a.iter()
                    .map(|x| x.as_str().map(|s| s.to_string()).ok_or("search_list item"))
                    .collect::<Result<Vec<_>, _>>()?,
            ),
            _ => None,
        };
        let e = v.get("entry").ok_or("missing entry")?;
        let api = get_str(e, "api")?;
        w.entry = match api.as_str() {
            "parse_source_string_with_path_search" => Entry::StringSearch {
                text: get_str(e, "text")?,
            },
            "parse_source_string" => Entry::StringPlain {
                text: get_str(e, "text")?,
            },
            "parse_source_file_with_search" => Entry::FileSearch {
                path: get_str(e, "path")?,
            },
            "parse_source_file" => Entry::FilePlain {
                path: get_str(e, "path")?,
            },
            other => return Err(format!("unknown entry api `{}`", other)),
        };
        if let Some(Value::Array(dirs)) = v.get("dirs") {
            for d in dirs {
                w.mkdir_p(d.as_str().ok_or("dir item")?);
            }
        }
        if let Some(Value::Object(files)) = v.get("files") {
            for (p, c) in files {
                w.put_file(p, bytes_from_json(c)?);
            }
        }
        if let Some(Value::Object(links)) = v.get("symlinks") {
            for (p, t) in links {
                w.put_link(p, t.as_str().ok_or("symlink target")?);
            }
        }
        if let Some(Value::Array(fs)) = v.get("faults") {
            for f in fs {
                w.faults.push(Fault::from_json(f)?);
            }
        }
        w.budget = get_usize(v, "seam_call_budget").unwrap_or(256);
        if let Some(Value::Array(ds)) = v.get("damage") {
            for d in ds {
                let g3 = match d.get("g3") {
                    Some(g) if !g.is_null() => {
                        Some((get_str(g, "class")?, get_usize(g, "lexeme_start")?))
                    }
                    _ => None,
                };
                w.damage.push(Damage {
                    path: get_str(d, "path")?,
                    kind: get_str(d, "kind")?,
                    at: get_usize(d, "at").unwrap_or(0),
                    g3,
                });
            }
        }
        if let Some(Value::Object(ms)) = v.get("meta") {
            for (p, m) in ms {
                let mut fm = FileMeta::default();
                if let Some(Value::Array(incs)) = m.get("includes") {
                    for i in incs {
                        let off = i.get(0).and_then(|x| x.as_u64()).ok_or("meta include")? as usize;
                        let val = i.get(1).and_then(|x| x.as_str()).map(|s| s.to_string());
                        fm.includes.push((off, val));
                    }
                }
                fm.graph_stmts = get_usize(m, "graph_stmts").unwrap_or(0);
                if let Some(Value::Array(a)) = m.get("nested_includes") {
                    fm.nested_includes = a.iter().filter_map(|x| x.as_u64()).map(|x| x as usize).collect();
                }
                if let Some(Value::Array(a)) = m.get("stmt_starts") {
                    fm.stmt_starts = a.iter().filter_map(|x| x.as_u64()).map(|x| x as usize).collect();
                }
                w.meta.insert(p.clone(), fm);
            }
        }
        if let Some(Value::Array(ns)) = v.get("notes") {
            w.notes = ns.iter().filter_map(|x| x.as_str()).map(|s| s.to_string()).collect();
        }
        Ok(w)
    }
}
