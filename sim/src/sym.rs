//! Engine E2: seeded operation histories on the real `SymbolTable` (public API + hook H2),
//! checked step by step against a stack-of-maps reference model (refinement), plus
//! history-level checks (replay equality, fork independence).

use crate::model::STDGATES;
use crate::prng::Rng;
use oq3_semantics::symbols::{ScopeType, SymbolError, SymbolId, SymbolTable, SymbolType};
use oq3_semantics::types::{ArrayDims, IsConst, Type};
use serde_json::{json, Value};
use std::collections::BTreeMap;
use std::panic::{catch_unwind, AssertUnwindSafe};

pub const TYPE_NAMES: &[&str] = &[
    "int", "const_int", "float", "qubit", "qreg", "gate", "hwqubit", "bool", "gate01", "bit",
];

pub fn type_of(name: &str) -> Type {
    match name {
        "int" => Type::Int(Some(32), IsConst::False),
        "const_int" => Type::Int(Some(32), IsConst::True),
        "float" => Type::Float(Some(64), IsConst::False),
        "qubit" => Type::Qubit,
        "qreg" => Type::QubitArray(ArrayDims::D1(3)),
        "gate" => Type::Gate(1, 2),
        "gate01" => Type::Gate(0, 1),
        "hwqubit" => Type::HardwareQubit,
        "bool" => Type::Bool(IsConst::False),
        _ => Type::Bit(IsConst::False),
    }
}

pub const NAME_POOL: &[&str] = &[
    "a", "b", "x", "q", "pi", "π", "U", "h", "cx", "euler", "tau", "é1", "$0", "$1", "ℇ", "u3",
    "swap", "tmp",
];

#[derive(Clone, Debug, PartialEq)]
pub enum SymOp {
    Enter(String), // "Local" | "Subroutine" | "Calibration"
    /// misuse: a second global scope
    EnterGlobal,
    /// exit the current scope; at the global scope this is misuse
    Exit,
    Bind(String, String),
    Lookup(String),
    LookupOrBind(String, String),
    LoadStd,
    Fork,
}

impl SymOp {
    pub fn to_json(&self) -> Value {
        match self {
            SymOp::Enter(s) => json!({"op":"enter_scope","scope":s}),
            SymOp::EnterGlobal => json!({"op":"enter_scope","scope":"Global"}),
            SymOp::Exit => json!({"op":"exit_scope"}),
            SymOp::Bind(n, t) => json!({"op":"new_binding","name":n,"type":t}),
            SymOp::Lookup(n) => json!({"op":"lookup","name":n}),
            SymOp::LookupOrBind(n, t) => json!({"op":"lookup_or_new_binding","name":n,"type":t}),
            SymOp::LoadStd => json!({"op":"standard_library_gates"}),
            SymOp::Fork => json!({"op":"fork"}),
        }
    }
    pub fn from_json(v: &Value) -> Result<SymOp, String> {
        let s = |k: &str| v.get(k).and_then(|x| x.as_str()).map(|x| x.to_string()).ok_or(format!("missing {}", k));
        Ok(match s("op")?.as_str() {
            "enter_scope" => {
                let sc = s("scope")?;
                if sc == "Global" {
                    SymOp::EnterGlobal
                } else {
                    SymOp::Enter(sc)
                }
            }
            "exit_scope" => SymOp::Exit,
            "new_binding" => SymOp::Bind(s("name")?, s("type")?),
            "lookup" => SymOp::Lookup(s("name")?),
            "lookup_or_new_binding" => SymOp::LookupOrBind(s("name")?, s("type")?),
            "standard_library_gates" => SymOp::LoadStd,
            "fork" => SymOp::Fork,
            o => return Err(format!("unknown op {}", o)),
        })
    }
}

fn scope_of(name: &str) -> ScopeType {
    match name {
        "Subroutine" => ScopeType::Subroutine,
        "Calibration" => ScopeType::Calibration,
        "Global" => ScopeType::Global,
        _ => ScopeType::Local,
    }
}

/// The reference model: a stack of maps plus an append-only symbol store.
#[derive(Clone, Debug, PartialEq)]
pub struct MTable {
    pub scopes: Vec<(ScopeType, BTreeMap<String, usize>)>,
    pub all: Vec<(String, Type)>,
}

impl MTable {
    pub fn new() -> MTable {
        let mut m = MTable {
            scopes: vec![(ScopeType::Global, BTreeMap::new())],
            all: vec![],
        };
        for c in ["pi", "π", "euler", "ℇ", "tau", "τ"] {
            m.bind_no_check(c, Type::Float(Some(64), IsConst::True));
        }
        m.bind_no_check("U", Type::Gate(3, 1));
        m
    }
    fn bind_no_check(&mut self, name: &str, t: Type) -> usize {
        let id = self.all.len();
        self.all.push((name.to_string(), t));
        self.scopes.last_mut().unwrap().1.insert(name.to_string(), id);
        id
    }
    pub fn bind(&mut self, name: &str, t: Type) -> Result<usize, ()> {
        if self.scopes.last().unwrap().1.contains_key(name) {
            Err(())
        } else {
            Ok(self.bind_no_check(name, t))
        }
    }
    pub fn lookup(&self, name: &str) -> Option<usize> {
        self.scopes.iter().rev().find_map(|(_, m)| m.get(name).cloned())
    }
}

impl Default for MTable {
    fn default() -> Self {
        Self::new()
    }
}

#[derive(Clone, Debug, PartialEq)]
pub struct SymViolation {
    pub signature: String,
    pub detail: String,
    pub step: usize,
}

#[derive(Clone, Debug, Default)]
pub struct SymInfo {
    pub steps: usize,
    pub binds_ok: usize,
    pub binds_rejected: usize,
    pub lookups_hit: usize,
    pub lookups_miss: usize,
    pub shadowed_lookups: usize,
    pub max_depth: usize,
    pub ids_issued: usize,
    pub misuse_exit_global: usize,
    pub misuse_enter_global: usize,
    pub misuse_panicked: usize,
    pub forks: usize,
    pub std_loads: usize,
    pub ids_checked_after_scope_closed: usize,
    pub observations: usize,
    pub shape: u64,
}

struct Ids(Vec<SymbolId>);

impl Ids {
    fn get(&mut self, k: usize) -> SymbolId {
        while self.0.len() <= k {
            let mut c = match self.0.last() {
                Some(l) => l.clone(),
                None => {
                    self.0.push(SymbolId::new());
                    continue;
                }
            };
            c.post_increment();
            self.0.push(c);
        }
        self.0[k].clone()
    }
}

/// Compare everything observable of `t` with the model `m`. `names`: the names to look up.
fn observe(t: &SymbolTable, m: &MTable, names: &[String], ids: &mut Ids, info: &mut SymInfo) -> Result<(), (String, String)> {
    info.observations += 1;
    for n in names {
        let got = t.lookup(n);
        let want = m.lookup(n);
        // the convenience accessors on the look-up result agree with it
        {
            use oq3_semantics::symbols::SymbolErrorTrait;
            let as_id = got.to_symbol_id();
            let (tuple_id, tuple_type) = got.as_tuple();
            let want_type = want.map(|id| m.all[id].1.clone()).unwrap_or(Type::Undefined);
            let id_ok = match (&as_id, want) {
                (Ok(id), Some(k)) => *id == ids.get(k),
                (Err(SymbolError::MissingBinding), None) => true,
                _ => false,
            };
            if !id_ok || tuple_id != as_id || tuple_type != want_type || *got.symbol_type() != want_type {
                return Err(("lookup-accessors".into(), format!("lookup({:?}): to_symbol_id() = {:?}, as_tuple() = ({:?}, {:?}), symbol_type() = {:?}; expected id {:?} of type {:?}", n, as_id, tuple_id, tuple_type, got.symbol_type(), want, want_type)));
            }
        }
        match (&got, want) {
            (Ok(rec), Some(id)) => {
                if rec.symbol_id() != ids.get(id) {
                    return Err(("lookup".into(), format!("lookup({:?}) returns id {:?}, the innermost open scope that binds it has id {}", n, rec.symbol_id(), id)));
                }
                if *rec.symbol_type() != m.all[id].1 {
                    return Err(("lookup-type".into(), format!("lookup({:?}) has type {:?}, bound as {:?}", n, rec.symbol_type(), m.all[id].1)));
                }
            }
            (Err(SymbolError::MissingBinding), None) => {}
            (Err(e), None) => return Err(("lookup-error-kind".into(), format!("lookup({:?}) of an unbound name returns {:?}", n, e))),
            (Ok(rec), None) => return Err(("lookup".into(), format!("lookup({:?}) finds id {:?} but no open scope binds that name", n, rec.symbol_id()))),
            (Err(e), Some(id)) => return Err(("lookup".into(), format!("lookup({:?}) = {:?}, but an open scope binds it to id {}", n, e, id))),
        }
    }
    if t.len_current_scope() != m.scopes.last().unwrap().1.len() {
        return Err(("len-current-scope".into(), format!("len_current_scope() = {}, the current scope has {} bindings", t.len_current_scope(), m.scopes.last().unwrap().1.len())));
    }
    if t.verif_scope_depth() != m.scopes.len() {
        return Err(("scope-depth".into(), format!("{} scopes are open, expected {}", t.verif_scope_depth(), m.scopes.len())));
    }
    if t.verif_current_scope_type() != m.scopes.last().unwrap().0 {
        return Err(("scope-type".into(), format!("current scope type {:?}, expected {:?}", t.verif_current_scope_type(), m.scopes.last().unwrap().0)));
    }
    // every id ever issued keeps denoting the same name and type
    let open: std::collections::BTreeSet<usize> = m.scopes.iter().flat_map(|(_, s)| s.values().cloned()).collect();
    for (k, (name, typ)) in m.all.iter().enumerate() {
        let id = ids.get(k);
        let r = catch_unwind(AssertUnwindSafe(|| {
            let s = &t[&id];
            (s.name().to_string(), s.symbol_type().clone())
        }));
        match r {
            Ok((n, ty)) => {
                if &n != name || &ty != typ {
                    return Err(("id-denotation".into(), format!("id {} denotes ({:?}, {:?}), it was issued for ({:?}, {:?})", k, n, ty, name, typ)));
                }
            }
            Err(_) => return Err(("id-lost".into(), format!("indexing the table with id {} (issued for {:?}) panics", k, name))),
        }
        if !open.contains(&k) {
            info.ids_checked_after_scope_closed += 1;
        }
    }
    let gates: Vec<(String, SymbolId, usize, usize)> = t.gates().map(|(n, id, a, b)| (n.to_string(), id, a, b)).collect();
    let mut want_g = vec![];
    for (k, (name, typ)) in m.all.iter().enumerate() {
        if let Type::Gate(a, b) = typ {
            if name != "U" {
                want_g.push((name.clone(), ids.get(k), *a, *b));
            }
        }
    }
    if gates != want_g {
        return Err(("gates-listing".into(), format!("gates() = {:?}, expected {:?}", gates, want_g)));
    }
    let hw: Vec<(String, SymbolId)> = t.hardware_qubits().into_iter().map(|(n, id)| (n.to_string(), id)).collect();
    let mut want_h = vec![];
    for (k, (name, typ)) in m.all.iter().enumerate() {
        if *typ == Type::HardwareQubit {
            want_h.push((name.clone(), ids.get(k)));
        }
    }
    if hw != want_h {
        return Err(("hardware-qubits-listing".into(), format!("hardware_qubits() = {:?}, expected {:?}", hw, want_h)));
    }
    Ok(())
}

/// Execute `ops` on a fresh real table and the model, checking refinement after every step.
pub fn run_history(ops: &[SymOp], names: &[String]) -> (Result<(), SymViolation>, SymInfo, Option<SymbolTable>) {
    let mut info = SymInfo::default();
    let mut ids = Ids(vec![]);
    let mut t = SymbolTable::new();
    let mut m = MTable::new();
    let mut forks: Vec<(SymbolTable, MTable, usize)> = vec![];
    let fail = |step: usize, class: &str, detail: String| SymViolation {
        signature: format!("H/{}", class),
        detail,
        step,
    };
    // initial state: the built-in constants and the built-in gate
    let mut all_names: Vec<String> = names.to_vec();
    for c in ["pi", "π", "euler", "ℇ", "tau", "τ", "U"] {
        if !all_names.iter().any(|n| n == c) {
            all_names.push(c.to_string());
        }
    }
    if let Err((c, d)) = observe(&t, &m, &all_names, &mut ids, &mut info) {
        return (Err(fail(0, &format!("initial/{}", c), d)), info, None);
    }
    let mut shape: u64 = 0xcbf2_9ce4_8422_2325;
    for (i, op) in ops.iter().enumerate() {
        let step = i + 1;
        info.steps += 1;
        let tag: u64;
        match op {
            SymOp::Enter(s) => {
                t.verif_enter_scope(scope_of(s));
                m.scopes.push((scope_of(s), BTreeMap::new()));
                info.max_depth = info.max_depth.max(m.scopes.len());
                tag = 1;
            }
            SymOp::EnterGlobal => {
                info.misuse_enter_global += 1;
                let r = catch_unwind(AssertUnwindSafe(|| t.verif_enter_scope(ScopeType::Global)));
                if r.is_err() {
                    info.misuse_panicked += 1;
                }
                tag = 2;
                // the model does nothing: a second global scope must be refused
            }
            SymOp::Exit => {
                if m.scopes.len() > 1 {
                    t.exit_scope();
                    m.scopes.pop();
                    tag = 3;
                } else {
                    info.misuse_exit_global += 1;
                    let r = catch_unwind(AssertUnwindSafe(|| t.exit_scope()));
                    if r.is_err() {
                        info.misuse_panicked += 1;
                    }
                    tag = 4;
                    // the global scope is never popped: the model does nothing
                }
            }
            SymOp::Bind(n, ty) => {
                let typ = type_of(ty);
                let got = t.new_binding(n, &typ);
                let want = m.bind(n, typ);
                match (&got, &want) {
                    (Ok(id), Ok(k)) => {
                        info.binds_ok += 1;
                        tag = 5;
                        if *id != ids.get(*k) {
                            return (Err(fail(step, "bind-id", format!("new_binding({:?}) issued id {:?}, expected the next unused id {}", n, id, k))), info, None);
                        }
                    }
                    (Err(SymbolError::AlreadyBound), Err(())) => {
                        info.binds_rejected += 1;
                        tag = 6;
                    }
                    (Ok(id), Err(())) => {
                        return (Err(fail(step, "bind-accepted-duplicate", format!("new_binding({:?}) succeeded with id {:?} although the current scope already binds that name", n, id))), info, None)
                    }
                    (Err(e), Ok(_)) => {
                        return (Err(fail(step, "bind-rejected", format!("new_binding({:?}) failed with {:?} although the current scope does not bind that name", n, e))), info, None)
                    }
                    (Err(e), Err(())) => {
                        return (Err(fail(step, "bind-error-kind", format!("new_binding({:?}) of a duplicate fails with {:?}, expected AlreadyBound", n, e))), info, None)
                    }
                }
            }
            SymOp::Lookup(n) => {
                // the result is compared by `observe` below (it looks up every name); here only
                // statistics
                match m.lookup(n) {
                    Some(id) => {
                        info.lookups_hit += 1;
                        let depth_found = m.scopes.iter().rposition(|(_, s)| s.get(n) == Some(&id)).unwrap_or(0);
                        if m.scopes[..depth_found].iter().any(|(_, s)| s.contains_key(n)) {
                            info.shadowed_lookups += 1;
                        }
                        tag = 7;
                    }
                    None => {
                        info.lookups_miss += 1;
                        tag = 8;
                    }
                }
                let _ = t.lookup(n);
            }
            SymOp::LookupOrBind(n, ty) => {
                let typ = type_of(ty);
                let got = t.lookup_or_new_binding(n, &typ);
                let want = match m.lookup(n) {
                    Some(id) => {
                        tag = 9;
                        id
                    }
                    None => {
                        tag = 10;
                        m.bind_no_check(n, typ)
                    }
                };
                if got != ids.get(want) {
                    return (Err(fail(step, "lookup-or-bind", format!("lookup_or_new_binding({:?}) = {:?}, expected id {}", n, got, want))), info, None);
                }
            }
            SymOp::LoadStd => {
                info.std_loads += 1;
                tag = 11;
                let before = m.all.len();
                let already: Vec<String> = STDGATES
                    .iter()
                    .filter(|(n, _, _)| m.scopes.last().unwrap().1.contains_key(*n))
                    .map(|(n, _, _)| n.to_string())
                    .collect();
                let mut rejected = t.verif_standard_library_gates();
                rejected.sort();
                let mut already_sorted = already.clone();
                already_sorted.sort();
                if rejected != already_sorted {
                    return (Err(fail(step, "stdgates-rejected-set", format!("loading the standard gates reports {:?} as already bound; the current scope binds {:?} of them", rejected, already_sorted))), info, None);
                }
                // the model adopts the order in which the implementation issued the new ids,
                // and checks that they are exactly the not-yet-bound standard gates
                let expect_new = STDGATES.len() - already.len();
                let mut seen = std::collections::BTreeSet::new();
                for k in before..before + expect_new {
                    let id = ids.get(k);
                    let r = catch_unwind(AssertUnwindSafe(|| {
                        let s = &t[&id];
                        (s.name().to_string(), s.symbol_type().clone())
                    }));
                    let (name, typ) = match r {
                        Ok(x) => x,
                        Err(_) => return (Err(fail(step, "stdgates-missing", format!("loading the standard gates should issue {} new ids; id {} does not exist", expect_new, k))), info, None),
                    };
                    let std = STDGATES.iter().find(|(n, _, _)| *n == name);
                    match std {
                        Some((_, np, nq)) if typ == Type::Gate(*np, *nq) && !already.contains(&name) && seen.insert(name.clone()) => {
                            m.bind_no_check(&name, typ);
                        }
                        _ => return (Err(fail(step, "stdgates-wrong-symbol", format!("loading the standard gates issued id {} for ({:?}, {:?})", k, name, typ))), info, None),
                    }
                }
            }
            SymOp::Fork => {
                info.forks += 1;
                tag = 12;
                let clone = t.clone();
                if clone != t {
                    return (Err(fail(step, "fork-not-equal", "a clone of the table is not == to the table".into())), info, None);
                }
                let orig = std::mem::replace(&mut t, clone);
                forks.push((orig, m.clone(), step));
            }
        }
        shape ^= tag.wrapping_add(m.scopes.len() as u64 * 31);
        shape = shape.wrapping_mul(0x0000_0100_0000_01B3);
        if let Err((c, d)) = observe(&t, &m, &all_names, &mut ids, &mut info) {
            let class = match op {
                SymOp::EnterGlobal | SymOp::Exit if tag == 2 || tag == 4 => format!("misuse-changed-state/{}", c),
                _ => c,
            };
            return (Err(fail(step, &class, format!("after step {} ({}): {}", step, op.to_json(), d))), info, None);
        }
    }
    info.ids_issued = m.all.len();
    info.shape = shape;
    // no symbol beyond the ids issued (checked once per history: indexing out of range panics)
    let beyond = ids.get(m.all.len());
    if catch_unwind(AssertUnwindSafe(|| t[&beyond].name().to_string())).is_ok() {
        return (
            Err(fail(ops.len(), "id-extra", format!("the table holds a symbol with id {} although only {} ids were issued", m.all.len(), m.all.len()))),
            info,
            None,
        );
    }
    // forks: the originals must be unchanged by everything that happened on the clones
    for (orig, snap, at) in &forks {
        if let Err((c, d)) = observe(orig, snap, &all_names, &mut ids, &mut info) {
            return (Err(fail(ops.len(), &format!("fork-not-independent/{}", c), format!("the table forked at step {} changed afterwards: {}", at, d))), info, None);
        }
    }
    (Ok(()), info, Some(t))
}

/// Full check of one history: refinement, then replay equality on a fresh table.
pub fn check_history(ops: &[SymOp], names: &[String]) -> (Result<(), SymViolation>, SymInfo) {
    let r = catch_unwind(AssertUnwindSafe(|| run_history(ops, names)));
    let (res, info, table) = match r {
        Ok(x) => x,
        Err(p) => {
            return (
                Err(SymViolation {
                    signature: "H/panic".into(),
                    detail: format!("a legal operation panicked: {}", crate::exec::panic_message(p.as_ref())),
                    step: 0,
                }),
                SymInfo::default(),
            )
        }
    };
    if res.is_err() {
        return (res, info);
    }
    let r2 = catch_unwind(AssertUnwindSafe(|| run_history(ops, names)));
    match (table, r2) {
        (Some(t1), Ok((Ok(()), _, Some(t2)))) => {
            if t1 != t2 {
                return (
                    Err(SymViolation {
                        signature: "H/replay-equality".into(),
                        detail: "replaying the same history on a fresh table gives a table that is not == to the first".into(),
                        step: ops.len(),
                    }),
                    info,
                );
            }
        }
        _ => {
            return (
                Err(SymViolation {
                    signature: "H/replay-diverges".into(),
                    detail: "replaying the same history on a fresh table does not behave the same".into(),
                    step: ops.len(),
                }),
                info,
            )
        }
    }
    (Ok(()), info)
}

/// Draw one history (swarm-weighted) and the name pool it uses.
pub fn gen_history(r: &mut Rng) -> (Vec<SymOp>, Vec<String>) {
    // usually a handful of names (collisions, shadowing); sometimes many (large scopes)
    let many = r.chance(1, 8);
    let n_names = if many { 20 + r.below(60) } else { 1 + r.below(6) };
    let mut names: Vec<String> = vec![];
    while names.len() < n_names {
        let n = if many && names.len() >= 4 {
            format!("n{}", names.len())
        } else {
            r.pick_str(NAME_POOL).to_string()
        };
        if !names.contains(&n) {
            names.push(n);
        }
    }
    let len = if many {
        60 + r.below(141)
    } else {
        match r.below(10) {
            0 => 1 + r.below(4),
            1..=5 => 4 + r.below(20),
            6..=8 => 20 + r.below(60),
            _ => 80 + r.below(121),
        }
    };
    // swarm weights: enter, exit, bind, lookup, lookup_or_bind, load_std, fork, enter_global
    let profile = r.below(6);
    let mut wt: [u32; 8] = match profile {
        0 => [10, 8, 40, 20, 6, 1, 2, 1],  // bind heavy
        1 => [30, 30, 15, 15, 4, 1, 2, 2], // scope heavy
        2 => [10, 10, 15, 55, 5, 1, 2, 1], // lookup heavy
        3 => [40, 8, 25, 15, 5, 1, 2, 1],  // deep nesting
        4 => [15, 25, 25, 20, 5, 2, 3, 4], // exit heavy: misuse at the global scope
        _ => [15, 15, 20, 20, 15, 3, 6, 2],
    };
    if r.chance(1, 2) {
        wt[5] = 0; // no standard library in half of the histories
    }
    let n_types = 1 + r.below(TYPE_NAMES.len());
    let mut ops = vec![];
    let mut depth = 1usize;
    for _ in 0..len {
        let op = match r.weighted(&wt) {
            0 if depth < 40 => {
                depth += 1;
                SymOp::Enter(r.pick_str(&["Local", "Local", "Subroutine", "Calibration"]).to_string())
            }
            0 => SymOp::Exit,
            1 => {
                if depth > 1 {
                    depth -= 1;
                }
                SymOp::Exit
            }
            2 => SymOp::Bind(r.pick(&names).clone(), TYPE_NAMES[r.below(n_types)].to_string()),
            3 => SymOp::Lookup(r.pick(&names).clone()),
            4 => SymOp::LookupOrBind(r.pick(&names).clone(), TYPE_NAMES[r.below(n_types)].to_string()),
            5 => SymOp::LoadStd,
            6 => SymOp::Fork,
            _ => SymOp::EnterGlobal,
        };
        ops.push(op);
    }
    (ops, names)
}

/// Delta debugging on the operation list: any subsequence is a valid history.
pub fn minimise_history(ops: &[SymOp], names: &[String], signature: &str, max_execs: usize) -> (Vec<SymOp>, usize) {
    let mut cur = ops.to_vec();
    let mut execs = 0;
    let fails = |o: &[SymOp], execs: &mut usize| {
        *execs += 1;
        matches!(check_history(o, names).0, Err(v) if v.signature == signature)
    };
    // truncate after the failing step first
    if let (Err(v), _) = check_history(&cur, names) {
        if v.step > 0 && v.step < cur.len() {
            let t = cur[..v.step].to_vec();
            if fails(&t, &mut execs) {
                cur = t;
            }
        }
    }
    let mut chunk = (cur.len() / 2).max(1);
    while chunk >= 1 && execs < max_execs {
        let mut i = 0;
        let mut progress = false;
        while i < cur.len() && execs < max_execs {
            let end = (i + chunk).min(cur.len());
            let mut cand = cur[..i].to_vec();
            cand.extend_from_slice(&cur[end..]);
            if !cand.is_empty() && fails(&cand, &mut execs) {
                cur = cand;
                progress = true;
            } else {
                i += chunk;
            }
        }
        if chunk == 1 && !progress {
            break;
        }
        if !progress {
            chunk /= 2;
        }
    }
    (cur, execs)
}
