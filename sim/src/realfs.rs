//! Real-FS differential stratum: fidelity check of the simulated file system. Fault-free
//! static worlds (including statically damaged contents) are materialised in a scratch
//! directory; the same entry point runs once with no simulator installed (real `std::fs`, real
//! cwd, real `QASM3_PATH`) and once on `SimEnv`; the results must agree. Single-threaded, in
//! its own process (it changes the process cwd and environment).

use crate::exec::{list_tree, run_world, ListTree, RunResult};
use crate::gen::{self, Profile, Stratum};
use crate::prng::{mix, Rng};
use crate::report::Args;
use crate::world::{Entry, Node, World};
use oq3_semantics::syntax_to_semantics as s2s;
use std::panic::{catch_unwind, AssertUnwindSafe};
use std::path::PathBuf;

fn materialise(w: &World) -> std::io::Result<()> {
    for (p, n) in &w.nodes {
        if p == "/" {
            continue;
        }
        match n {
            Node::Dir => std::fs::create_dir_all(p)?,
            Node::File(b) => {
                if let Some(parent) = std::path::Path::new(p).parent() {
                    std::fs::create_dir_all(parent)?;
                }
                std::fs::write(p, b)?;
            }
            Node::Link(t) => {
                if let Some(parent) = std::path::Path::new(p).parent() {
                    std::fs::create_dir_all(parent)?;
                }
                std::os::unix::fs::symlink(t, p)?;
            }
        }
    }
    Ok(())
}

type RealObs = (bool, oq3_semantics::asg::Program, oq3_semantics::symbols::SymbolTable, ListTree, usize);

fn run_real(w: &World) -> Result<RealObs, String> {
    catch_unwind(AssertUnwindSafe(|| {
        let dirs: Option<Vec<PathBuf>> = w.list.as_ref().map(|l| l.iter().map(PathBuf::from).collect());
        match &w.entry {
            Entry::StringSearch { text } => {
                let r = s2s::parse_source_string_with_path_search(text, None, dirs.as_deref());
                (r.any_syntax_errors(), r.program().clone(), r.symbol_table().clone(), list_tree(r.semantic_errors()), r.num_syntax_errors())
            }
            Entry::StringPlain { text } => {
                let r = s2s::parse_source_string(text, None);
                (r.any_syntax_errors(), r.program().clone(), r.symbol_table().clone(), list_tree(r.semantic_errors()), r.num_syntax_errors())
            }
            Entry::FileSearch { path } => {
                let r = s2s::parse_source_file_with_search(path, dirs.as_deref());
                (r.any_syntax_errors(), r.program().clone(), r.symbol_table().clone(), list_tree(r.semantic_errors()), r.num_syntax_errors())
            }
            Entry::FilePlain { path } => {
                let r = s2s::parse_source_file(path);
                (r.any_syntax_errors(), r.program().clone(), r.symbol_table().clone(), list_tree(r.semantic_errors()), r.num_syntax_errors())
            }
        }
    }))
    .map_err(|p| crate::exec::panic_message(p.as_ref()))
}

pub fn run(args: &Args, seed: u64) -> i32 {
    let n = args.num("--runs").unwrap_or(2000);
    let base = std::env::temp_dir().join(format!("oq3sim-realfs-{}", std::process::id()));
    let _ = std::fs::remove_dir_all(&base);
    if let Err(e) = std::fs::create_dir_all(&base) {
        eprintln!("harness error: cannot create scratch directory {}: {}", base.display(), e);
        return 2;
    }
    let base = match std::fs::canonicalize(&base) {
        Ok(b) => b,
        Err(e) => {
            eprintln!("harness error: {}", e);
            return 2;
        }
    };
    let original_cwd = std::env::current_dir().ok();
    let stream = mix(seed, crate::prng::fnv1a(b"incsim/realfs"));
    let (mut compared, mut skipped, mut mismatches, mut both_panic) = (0u64, 0u64, 0u64, 0u64);
    let (mut with_links, mut links_followed) = (0u64, 0u64);
    let mut first_bad: Vec<String> = vec![];
    for i in 0..n {
        let mut rng = Rng::new(mix(stream, i));
        let root = base.join(format!("w{}", i));
        let root_s = root.to_string_lossy().into_owned();
        let profile = match i % 3 {
            0 => Profile::Includes,
            1 => Profile::Gating,
            _ => Profile::Spans,
        };
        let (_s, worlds) = gen::gen_cases_in(&mut rng, profile, &root_s, Stratum::Static);
        let w = &worlds[0];
        if !w.faults.is_empty() {
            skipped += 1;
            continue;
        }
        if let Err(e) = materialise(w) {
            eprintln!("harness error: materialising world {}: {}", i, e);
            let _ = std::fs::remove_dir_all(&base);
            return 2;
        }
        if std::env::set_current_dir(&w.cwd).is_err() {
            skipped += 1;
            let _ = std::fs::remove_dir_all(&root);
            continue;
        }
        match &w.env {
            Some(e) => std::env::set_var("QASM3_PATH", e),
            None => std::env::remove_var("QASM3_PATH"),
        }
        let real = run_real(w);
        let _ = std::env::set_current_dir("/");
        // the seam-call budget is derived from the pristine world and static damage can add
        // include sites (`check_world` retries with a larger budget; here the budget is simply
        // lifted: these worlds have no faults and every run on real files terminates)
        let sim = {
            let mut w2 = w.clone();
            w2.budget = crate::BUDGET_CAP;
            run_world(&w2)
        };
        if w.nodes.values().any(|n| matches!(n, Node::Link(_))) {
            with_links += 1;
        }
        links_followed += sim.history.iter().filter(|c| c.fired.iter().any(|f| f.starts_with("symlink_followed"))).count() as u64;
        match (&real, &sim.result) {
            (Ok((a, p, s, l, ns)), RunResult::Returned(o)) => {
                compared += 1;
                if *a != o.any_syntax || *p != o.program || *s != o.symtab || *l != o.lists || *ns != o.num_syntax_errors {
                    mismatches += 1;
                    if first_bad.len() < 3 {
                        first_bad.push(format!(
                            "world {}: any_syntax {} vs {}, program equal {}, symbols equal {}, lists equal {}\n real lists {:?}\n sim  lists {:?}\n world {}",
                            i, a, o.any_syntax, *p == o.program, *s == o.symtab, *l == o.lists, l, o.lists,
                            serde_json::to_string(&w.to_json()).unwrap_or_default()
                        ));
                    }
                }
            }
            (Err(_), RunResult::Panic(_)) => {
                compared += 1;
                both_panic += 1;
            }
            (a, b) => {
                mismatches += 1;
                if first_bad.len() < 3 {
                    first_bad.push(format!(
                        "world {}: real run {} but simulated run {}\n world {}",
                        i,
                        match a { Ok(_) => "returned".to_string(), Err(m) => format!("panicked ({})", m) },
                        match b { RunResult::Returned(_) => "returned".to_string(), RunResult::Panic(m) => format!("panicked ({})", m), RunResult::Budget => "exhausted its budget".into() },
                        serde_json::to_string(&w.to_json()).unwrap_or_default()
                    ));
                }
            }
        }
        let _ = std::fs::remove_dir_all(&root);
    }
    std::env::remove_var("QASM3_PATH");
    if let Some(c) = original_cwd {
        let _ = std::env::set_current_dir(c);
    }
    let _ = std::fs::remove_dir_all(&base);
    println!(
        "realfs differential: worlds={} compared={} skipped={} both_panic={} worlds_with_symlinks={} seam_calls_through_symlinks={} mismatches={}",
        n, compared, skipped, both_panic, with_links, links_followed, mismatches
    );
    for b in &first_bad {
        println!("MISMATCH {}", b);
    }
    if mismatches > 0 {
        // an infidelity of the simulated file system is a defect of the harness, not of the repo
        return 2;
    }
    0
}
