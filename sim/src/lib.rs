//! Deterministic simulation with fault injection for Qiskit/openqasm3_parser.
//! Engine E1 (`incsim`): the multi-file pipeline on a simulated file system + environment.
//! Engine E2 (`symsim`): operation histories on `SymbolTable` against a stack-of-maps model.
//! See /verif/DESIGN.md.

pub mod exec;
pub mod gen;
pub mod minimise;
pub mod model;
pub mod oracle;
pub mod prng;
pub mod realfs;
pub mod report;
pub mod simfs;
pub mod sym;
pub mod world;

use oracle::{RunInfo, Verdict};
use world::World;

/// Execute one world and judge it with the oracles of engine E1. `focus` = the property under
/// check (see `oracle::judge`).
pub fn check_world(w: &World, focus: Option<&str>) -> (Verdict, RunInfo, exec::Run) {
    let run = exec::run_world(w);
    if let exec::RunResult::Budget = run.result {
        // The budget is derived from the pristine world; content damage can legitimately add
        // include sites (a flipped byte turns `stdgates.inc` into a file name). If the model
        // explains every call made so far, the budget was too small, not the run too long:
        // retry with a larger one, up to a hard cap that no legitimate world can reach.
        let mut w2 = w.clone();
        let mut last = run;
        while w2.budget < BUDGET_CAP {
            let explained = std::panic::catch_unwind(std::panic::AssertUnwindSafe(|| {
                let mut m = model::Model::new(&w2, &last.history);
                m.build();
                if m.r2.is_empty() {
                    return true;
                }
                // or under the policy "a file is read before it is refused as recursive"
                let mut m = model::Model::new(&w2, &last.history);
                m.read_before_refusal = true;
                m.build();
                m.r2.is_empty()
            }))
            .unwrap_or(false);
            if !explained {
                break;
            }
            w2.budget = (w2.budget * 4).min(BUDGET_CAP);
            last = exec::run_world(&w2);
            if !matches!(last.result, exec::RunResult::Budget) {
                break;
            }
        }
        let (v, info) = judge_contained(&w2, &last, focus);
        return (v, info, last);
    }
    let (v, info) = judge_contained(w, &run, focus);
    (v, info, run)
}

/// The model and the oracles are plain code over the recorded history and are not expected to
/// panic; if they do (which has only been seen on trees changed so that the parser's offsets no
/// longer fit the text) the run is not judged and counts as a harness inconsistency, which
/// decides the exit code only when the batch has no violation to report.
pub fn judge_contained(w: &World, run: &exec::Run, focus: Option<&str>) -> (Verdict, RunInfo) {
    match std::panic::catch_unwind(std::panic::AssertUnwindSafe(|| oracle::judge(w, run, focus))) {
        Ok(r) => r,
        Err(_) => (Verdict::Skip("harness_model_panic"), RunInfo::default()),
    }
}

/// No legitimate world of the generator's size bounds comes near this many seam calls.
pub const BUDGET_CAP: usize = 4096;
