//! Deterministic simulation with fault injection for Qiskit/openqasm3_parser.
//! Engine E1 (`incsim`): the multi-file pipeline on a simulated file system + environment.
//! Engine E2 (`symsim`): operation histories on `SymbolTable` against a stack-of-maps model.
//! See /verif/DESIGN.md.

pub mod exec;
pub mod gen;
pub mod minimise;
pub mod model;
pub mod oracle;
pub mod prng;
pub mod realfs;
pub mod report;
pub mod simfs;
pub mod world;

use oracle::{RunInfo, Verdict};
use world::World;

/// Execute one world and judge it with every oracle of engine E1.
pub fn check_world(w: &World) -> (Verdict, RunInfo, exec::Run) {
    let run = exec::run_world(w);
    let (v, info) = oracle::judge(w, &run);
    (v, info, run)
}
