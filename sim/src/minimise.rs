//! Delta-debugging minimiser for worlds: drop faults, files, directories, search-list entries,
//! statements; keep a candidate iff the same oracle fails with the same signature.

use crate::oracle::Verdict;
use crate::world::{Entry, Node, World};

pub struct Minimised {
    pub world: World,
    pub executions: usize,
    pub steps_accepted: usize,
}

fn still_fails(w: &World, signature: &str, focus: Option<&str>, execs: &mut usize) -> bool {
    *execs += 1;
    match crate::check_world(w, focus).0 {
        Verdict::Violation(v) => v.signature == signature,
        _ => false,
    }
}

/// Split a text into droppable chunks: statement starts if known, else lines.
fn chunks(text: &str, starts: Option<&Vec<usize>>) -> Vec<(usize, usize)> {
    let mut cuts: Vec<usize> = match starts {
        Some(s) if !s.is_empty() => s.iter().cloned().filter(|x| *x <= text.len() && text.is_char_boundary(*x)).collect(),
        _ => {
            let mut v = vec![0];
            for (i, b) in text.bytes().enumerate() {
                if b == b'\n' && i + 1 < text.len() {
                    v.push(i + 1);
                }
            }
            v
        }
    };
    if cuts.first() != Some(&0) {
        cuts.insert(0, 0);
    }
    cuts.sort();
    cuts.dedup();
    let mut out = vec![];
    for i in 0..cuts.len() {
        let e = if i + 1 < cuts.len() { cuts[i + 1] } else { text.len() };
        out.push((cuts[i], e));
    }
    out
}

pub fn minimise(w0: &World, signature: &str, focus: Option<&str>, max_execs: usize) -> Minimised {
    let mut w = w0.clone();
    let mut execs = 0usize;
    let mut accepted = 0usize;
    macro_rules! try_cand {
        ($cand:expr) => {{
            let cand: World = $cand;
            if execs < max_execs && still_fails(&cand, signature, focus, &mut execs) {
                w = cand;
                accepted += 1;
                true
            } else {
                false
            }
        }};
    }
    let mut progress = true;
    let mut rounds = 0;
    while progress && execs < max_execs && rounds < 4 {
        progress = false;
        rounds += 1;
        // 1. faults
        let mut i = 0;
        while i < w.faults.len() {
            let mut c = w.clone();
            c.faults.remove(i);
            if try_cand!(c) {
                progress = true;
            } else {
                i += 1;
            }
        }
        // 2. files (largest paths first so that children go before parents), then empty dirs
        let paths: Vec<String> = w.nodes.keys().rev().cloned().collect();
        for p in paths {
            if p == "/" || p == w.cwd || w.cwd.starts_with(&format!("{}/", p)) {
                continue;
            }
            let prefix = format!("{}/", p);
            if matches!(w.nodes.get(&p), Some(Node::Dir)) && w.nodes.keys().any(|k| k.starts_with(&prefix)) {
                continue;
            }
            let mut c = w.clone();
            c.nodes.remove(&p);
            c.meta.remove(&p);
            if try_cand!(c) {
                progress = true;
            }
        }
        // 3. search list / environment
        if let Some(l) = w.list.clone() {
            let mut i = 0;
            let mut l = l;
            while i < l.len() {
                let mut c = w.clone();
                let mut l2 = l.clone();
                l2.remove(i);
                c.list = Some(l2.clone());
                if try_cand!(c) {
                    l = l2;
                    progress = true;
                } else {
                    i += 1;
                }
            }
        }
        if w.env.is_some() {
            let mut c = w.clone();
            c.env = None;
            if try_cand!(c) {
                progress = true;
            }
        }
        // 4. statements of every undamaged file and of the entry text
        let damaged: Vec<String> = w.damage.iter().map(|d| d.path.clone()).collect();
        let file_paths: Vec<String> = w
            .nodes
            .iter()
            .filter(|(p, n)| matches!(n, Node::File(_)) && !damaged.contains(p))
            .map(|(p, _)| p.clone())
            .collect();
        for p in file_paths {
            let text = match w.nodes.get(&p) {
                Some(Node::File(b)) => match String::from_utf8(b.clone()) {
                    Ok(t) => t,
                    Err(_) => continue,
                },
                _ => continue,
            };
            let mut cur = text.clone();
            let mut cks = chunks(&cur, w.meta.get(&p).map(|m| &m.stmt_starts));
            let mut i = cks.len();
            while i > 0 && execs < max_execs {
                i -= 1;
                let (s, e) = cks[i];
                let mut t2 = String::new();
                t2.push_str(&cur[..s]);
                t2.push_str(&cur[e..]);
                let mut c = w.clone();
                c.nodes.insert(p.clone(), Node::File(t2.clone().into_bytes()));
                c.meta.remove(&p);
                if try_cand!(c) {
                    cur = t2;
                    cks = chunks(&cur, None);
                    i = i.min(cks.len());
                    progress = true;
                }
            }
        }
        if let Some(text) = w.entry_text().map(|s| s.to_string()) {
            let mut cur = text;
            let mut cks = chunks(&cur, w.meta.get("").map(|m| &m.stmt_starts));
            let mut i = cks.len();
            while i > 0 && execs < max_execs {
                i -= 1;
                let (s, e) = cks[i];
                let mut t2 = String::new();
                t2.push_str(&cur[..s]);
                t2.push_str(&cur[e..]);
                let mut c = w.clone();
                c.entry = match &w.entry {
                    Entry::StringSearch { .. } => Entry::StringSearch { text: t2.clone() },
                    _ => Entry::StringPlain { text: t2.clone() },
                };
                c.meta.remove("");
                if try_cand!(c) {
                    cur = t2;
                    cks = chunks(&cur, None);
                    i = i.min(cks.len());
                    progress = true;
                }
            }
        }
    }
    w.notes.push(format!("minimised: {} executions, {} reductions accepted", execs, accepted));
    Minimised {
        world: w,
        executions: execs,
        steps_accepted: accepted,
    }
}
