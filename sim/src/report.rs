//! Shared reporting: counters, known findings, replay files, evidence files.

use serde_json::{json, Value};
use std::collections::{BTreeMap, BTreeSet};
use std::path::Path;

#[derive(Default, Clone)]
pub struct Stats {
    pub counters: BTreeMap<String, u64>,
    pub sets: BTreeMap<String, BTreeSet<u64>>,
    pub strings: BTreeMap<String, BTreeSet<String>>,
}

impl Stats {
    pub fn add(&mut self, key: &str, n: u64) {
        *self.counters.entry(key.to_string()).or_default() += n;
    }
    pub fn inc(&mut self, key: &str) {
        self.add(key, 1);
    }
    pub fn get(&self, key: &str) -> u64 {
        self.counters.get(key).cloned().unwrap_or(0)
    }
    pub fn set_insert(&mut self, key: &str, v: u64) {
        self.sets.entry(key.to_string()).or_default().insert(v);
    }
    pub fn str_insert(&mut self, key: &str, v: &str) {
        self.strings.entry(key.to_string()).or_default().insert(v.to_string());
    }
    pub fn set_len(&self, key: &str) -> u64 {
        self.sets.get(key).map(|s| s.len() as u64).unwrap_or(0)
    }
    pub fn merge(&mut self, o: &Stats) {
        for (k, v) in &o.counters {
            *self.counters.entry(k.clone()).or_default() += v;
        }
        for (k, v) in &o.sets {
            self.sets.entry(k.clone()).or_default().extend(v.iter().cloned());
        }
        for (k, v) in &o.strings {
            self.strings.entry(k.clone()).or_default().extend(v.iter().cloned());
        }
    }
    /// counters whose key starts with `prefix`, with the prefix stripped
    pub fn group(&self, prefix: &str) -> Value {
        let mut m = serde_json::Map::new();
        for (k, v) in &self.counters {
            if let Some(rest) = k.strip_prefix(prefix) {
                m.insert(rest.to_string(), json!(v));
            }
        }
        Value::Object(m)
    }
}

#[derive(Clone, Debug)]
pub struct Finding {
    pub property: String,
    pub signature: String,
    pub status: String, // "known" | "fixed"
    pub commit: Option<String>,
    pub what: String,
}

pub fn load_findings(path: &Path) -> Result<Vec<Finding>, String> {
    let text = match std::fs::read_to_string(path) {
        Ok(t) => t,
        Err(e) if e.kind() == std::io::ErrorKind::NotFound => return Ok(vec![]),
        Err(e) => return Err(format!("cannot read {}: {}", path.display(), e)),
    };
    let v: Value = serde_json::from_str(&text).map_err(|e| format!("{}: {}", path.display(), e))?;
    let mut out = vec![];
    for f in v.get("findings").and_then(|x| x.as_array()).cloned().unwrap_or_default() {
        let g = |k: &str| f.get(k).and_then(|x| x.as_str()).map(|s| s.to_string());
        out.push(Finding {
            property: g("property").ok_or("finding without property")?,
            signature: g("signature").ok_or("finding without signature")?,
            status: g("status").unwrap_or_else(|| "known".into()),
            commit: g("commit"),
            what: g("what").unwrap_or_default(),
        });
    }
    Ok(out)
}

/// Is a violation with this signature, reported for `property`, a listed known finding?
pub fn is_known(findings: &[Finding], property: &str, signature: &str) -> bool {
    findings
        .iter()
        .any(|f| f.status == "known" && f.property == property && f.signature == signature)
}

pub fn write_json(path: &Path, v: &Value) -> Result<(), String> {
    if let Some(d) = path.parent() {
        std::fs::create_dir_all(d).map_err(|e| e.to_string())?;
    }
    let s = serde_json::to_string_pretty(v).map_err(|e| e.to_string())?;
    std::fs::write(path, s + "\n").map_err(|e| format!("{}: {}", path.display(), e))
}

pub fn verif_seed() -> u64 {
    std::env::var("VERIF_SEED")
        .ok()
        .and_then(|s| s.trim().parse::<u64>().ok())
        .unwrap_or(1)
}

/// Simple `--key value` / `--flag` argument access.
pub struct Args(pub Vec<String>);

impl Args {
    pub fn from_env() -> Args {
        Args(std::env::args().skip(1).collect())
    }
    pub fn value(&self, key: &str) -> Option<String> {
        self.0
            .iter()
            .position(|a| a == key)
            .and_then(|i| self.0.get(i + 1))
            .cloned()
    }
    pub fn num(&self, key: &str) -> Option<u64> {
        self.value(key).and_then(|s| s.parse().ok())
    }
    pub fn flag(&self, key: &str) -> bool {
        self.0.iter().any(|a| a == key)
    }
    pub fn command(&self) -> &str {
        self.0.first().map(|s| s.as_str()).unwrap_or("")
    }
}
