//! Seeded generation of worlds (multi-file projects on a simulated file system, with a search
//! configuration, an entry point and a fault plan). Swarm style: every run first draws which
//! features are enabled. Everything is drawn from the one `Rng` passed in.

use crate::exec::{run_world, RunResult};
use crate::prng::Rng;
use crate::simfs::{self, Op, Out};
use crate::world::{Damage, Entry, Fault, FileMeta, Node, World};
use std::collections::BTreeMap;

#[derive(Clone, Copy, Debug, PartialEq, Eq)]
pub enum Profile {
    /// C18: layouts, search configurations, resolution, dynamic faults
    Includes,
    /// C11: content-damaging storage faults weighted up
    Gating,
    /// C12: semantic errors, non-ASCII text and content damage weighted up
    Spans,
}

#[derive(Clone, Copy, Debug, PartialEq, Eq, PartialOrd, Ord)]
pub enum Stratum {
    Static,
    Dynamic,
    Sweep,
    Cycle,
}

impl Stratum {
    pub fn name(&self) -> &'static str {
        match self {
            Stratum::Static => "static",
            Stratum::Dynamic => "dynamic",
            Stratum::Sweep => "sweep",
            Stratum::Cycle => "cycle",
        }
    }
}

/// A lexeme of a class whose truncation the lexer must diagnose (oracle G3).
#[derive(Clone, Debug)]
pub struct Lexeme {
    pub start: usize,
    pub end: usize,
    pub class: &'static str,
}

impl Lexeme {
    /// Is a tear at byte `p` (the file keeps bytes `..p`) one that leaves a malformed lexeme
    /// of this class which the lexer must flag at `start`?
    pub fn tear_is_diagnosable(&self, p: usize) -> bool {
        let (s, e) = (self.start, self.end);
        match self.class {
            "string" | "bit_string" => p > s && p < e,
            "block_comment" => p >= s + 2 && p < e,
            // `0x` + EOF; also the upper-case spellings (known finding D3)
            "prefixed_int" | "upper_prefixed_int" => p == s + 2,
            // tear right after the exponent marker or its sign
            "exponent_float" | "dot_exponent_float" => false, // refined by `exp_positions`
            "version" => p >= s + 9 && p < e,
            _ => false,
        }
    }
}

/// Text writer that records lexemes and statement facts.
#[derive(Default, Clone)]
struct Tw {
    /// Windows line endings: every "\n" pushed as plain text becomes "\r\n"
    crlf: bool,
    s: String,
    lexemes: Vec<Lexeme>,
    /// tear positions inside exponent floats that leave `…e` or `…e+`: (position, lexeme index)
    exp_tears: Vec<(usize, usize)>,
}

impl Tw {
    fn push(&mut self, t: &str) {
        if self.crlf && t.contains('\n') {
            self.s.push_str(&t.replace('\n', "\r\n"));
        } else {
            self.s.push_str(t);
        }
    }
    fn lexeme(&mut self, class: &'static str, t: &str) {
        let start = self.s.len();
        self.s.push_str(t);
        self.lexemes.push(Lexeme {
            start,
            end: self.s.len(),
            class,
        });
        if class == "exponent_float" || class == "dot_exponent_float" {
            let idx = self.lexemes.len() - 1;
            if let Some(epos) = t.find(['e', 'E']) {
                self.exp_tears.push((start + epos + 1, idx));
                let rest = &t[epos + 1..];
                if rest.starts_with('+') || rest.starts_with('-') {
                    self.exp_tears.push((start + epos + 2, idx));
                }
            }
        }
    }
}

/// Names known to the generated program so far (to keep programs mostly valid).
#[derive(Default, Clone)]
struct Scope {
    ints: Vec<String>,
    consts: Vec<String>,
    floats: Vec<String>,
    bools: Vec<String>,
    bits: Vec<String>,
    qubits: Vec<String>,
    qregs: Vec<(String, usize)>,
    gates: Vec<(String, usize, usize)>,
    defs: Vec<(String, usize)>,
}

#[derive(Clone, Copy)]
struct Marks {
    ints: usize,
    consts: usize,
    floats: usize,
    bools: usize,
    bits: usize,
    qubits: usize,
    qregs: usize,
}

impl Scope {
    fn mark(&self) -> Marks {
        Marks {
            ints: self.ints.len(),
            consts: self.consts.len(),
            floats: self.floats.len(),
            bools: self.bools.len(),
            bits: self.bits.len(),
            qubits: self.qubits.len(),
            qregs: self.qregs.len(),
        }
    }
    fn reset(&mut self, m: Marks) {
        self.ints.truncate(m.ints);
        self.consts.truncate(m.consts);
        self.floats.truncate(m.floats);
        self.bools.truncate(m.bools);
        self.bits.truncate(m.bits);
        self.qubits.truncate(m.qubits);
        self.qregs.truncate(m.qregs);
    }
}

/// Swarm switches of one world.
#[derive(Clone, Debug)]
struct Swarm {
    non_ascii: bool,
    semantic_errors: u32, // chance (out of 100) of a deliberately wrong use
    control_flow: bool,
    gates: bool,
    defs: bool,
    literals_rich: bool,
    d3_literals: bool,
    comments: bool,
    annotations: bool,
    nested_includes: bool,
    unusable_includes: bool,
    odd_spellings: bool,
    colliding_names: bool,
    stdgates: bool,
    misc: bool,
    big: bool,
    crlf: bool,
    symlinks: bool,
}

struct LogicalFile {
    name: String,      // path relative to a directory, e.g. "f1.inc" or "sub/f1.inc"
    body: Option<Tw>,  // generated lazily, in flattened order
    meta: FileMeta,    // offsets relative to body (marker excluded)
    includes: Vec<usize>, // logical files this one may include
    expansions: usize, // number of include expansions below this file (fault free, acyclic)
}

struct G<'a> {
    r: &'a mut Rng,
    sw: Swarm,
    sc: Scope,
    counter: usize,
    files: Vec<LogicalFile>,
    dirs: Vec<String>,
    /// absolute directories where copies of logical file i live, in order
    placement: Vec<Vec<String>>,
    std_included: bool,
    expansions_left: usize,
    cycle: bool,
    /// offsets of include statements below global scope written by the statement in progress
    pending_nested: Vec<usize>,
    /// the file being generated may be included more than once: its declarations must not
    /// have constant initialisers (a redeclared constant-initialised variable makes the
    /// analyser panic, which is property C03's subject, not C18's)
    safe: bool,
    /// the last name handed out by `var_name` came from the colliding pool
    collided: bool,
    /// logical files that may be included more than once
    multi: Vec<bool>,

}

const STD_SAMPLE: &[(&str, usize, usize)] = &[
    ("h", 0, 1),
    ("x", 0, 1),
    ("cx", 0, 2),
    ("rz", 1, 1),
    ("ccx", 0, 3),
    ("cu", 4, 2),
    ("u3", 3, 1),
    ("swap", 0, 2),
    ("CX", 0, 2),
    ("cphase", 1, 2),
];

impl<'a> G<'a> {
    fn fresh(&mut self, prefix: &str) -> String {
        self.counter += 1;
        if self.sw.non_ascii && self.r.chance(1, 6) {
            let deco = self.r.pick_str(&["é", "λ", "ß", "ж", "名"]);
            format!("{}{}{}", prefix, deco, self.counter)
        } else {
            format!("{}{}", prefix, self.counter)
        }
    }

    /// A variable name: usually fresh, sometimes from a small colliding pool (redeclarations).
    fn var_name(&mut self, prefix: &str) -> String {
        if self.sw.colliding_names && self.r.chance(1, 10) {
            self.collided = true;
            self.r.pick_str(&["a", "b", "x1", "tmp", "h", "s", "cx", "id"]).to_string()
        } else {
            self.collided = false;
            self.fresh(prefix)
        }
    }

    fn trivia(&mut self, w: &mut Tw) {
        let k = self.r.below(if self.sw.comments { 14 } else { 8 });
        match k {
            0..=3 => w.push("\n"),
            4 => w.push(" "),
            5 => w.push("\n\n"),
            6 => w.push("\n  "),
            7 => w.push("\t\n"),
            8 => w.push("\n// line comment\n"),
            9 => {
                if self.sw.non_ascii {
                    w.push(" // β-comment ☃\n")
                } else {
                    w.push(" // c\n")
                }
            }
            10 => {
                w.push(" ");
                let t = self.r.pick_str(&["/* block */", "/* block */", "/*/ slash first */", "/**/", "/***/", "/* a * / b */"]);
                w.lexeme("block_comment", t);
                w.push("\n");
            }
            11 => {
                w.push("\n");
                let t = if self.sw.non_ascii {
                    "/* outer /* inner β */ still outer */"
                } else {
                    "/* outer /* inner */ still outer */"
                };
                w.lexeme("block_comment", t);
                w.push("\n");
            }
            12 => {
                w.push("\n");
                w.lexeme("block_comment", "/* multi\n   line\n */");
                w.push(" ");
            }
            _ => w.push("\n"),
        }
    }

    fn int_lit(&mut self, w: &mut Tw) {
        if !self.sw.literals_rich {
            let v = self.r.pick_str(&["1", "2", "3", "7", "42", "0"]);
            w.push(v);
            return;
        }
        match self.r.below(10) {
            0 => w.lexeme("prefixed_int", self.r.pick_str(&["0x1F", "0xff", "0xA0"])),
            1 => w.lexeme("prefixed_int", self.r.pick_str(&["0b101", "0b1", "0b1100"])),
            2 => w.lexeme("prefixed_int", self.r.pick_str(&["0o17", "0o7"])),
            3 if self.sw.d3_literals => {
                w.lexeme("upper_prefixed_int", self.r.pick_str(&["0X1F", "0B101", "0O17"]))
            }
            4 => w.push("1_000"),
            _ => {
                let v = self.r.pick_str(&["1", "2", "3", "7", "42", "0", "100"]);
                w.push(v);
            }
        }
    }

    fn float_lit(&mut self, w: &mut Tw) {
        if !self.sw.literals_rich {
            w.push(self.r.pick_str(&["1.5", "0.25", "2.0"]));
            return;
        }
        match self.r.below(8) {
            0 => w.lexeme("exponent_float", self.r.pick_str(&["1e3", "2E2", "5e0"])),
            1 => w.lexeme("exponent_float", self.r.pick_str(&["1.5e+3", "2.5E-2", "1.0e-1"])),
            2 => w.lexeme("exponent_float", self.r.pick_str(&[".5e2", ".25E+1"])),
            3 if self.sw.d3_literals => w.lexeme("dot_exponent_float", self.r.pick_str(&["3.e2", "1.E+1"])),
            4 => w.push(".5"),
            _ => w.push(self.r.pick_str(&["1.5", "0.25", "2.0", "3."])),
        }
    }

    fn wrong(&mut self) -> bool {
        let p = self.sw.semantic_errors;
        p > 0 && self.r.chance(p, 100)
    }

    /// A name to use as an integer operand: declared, or (deliberately) undeclared.
    fn int_operand(&mut self, w: &mut Tw) {
        if self.wrong() {
            let n = self.fresh("undef");
            w.push(&n);
            return;
        }
        let pool: Vec<&String> = self.sc.ints.iter().chain(self.sc.consts.iter()).collect();
        if pool.is_empty() || self.r.chance(1, 4) {
            self.int_lit(w);
        } else {
            let n = self.r.pick(&pool).to_string();
            w.push(&n);
        }
    }

    fn qubit_operand(&mut self, w: &mut Tw) -> bool {
        let nq = self.sc.qubits.len();
        let nr = self.sc.qregs.len();
        if nq + nr == 0 {
            return false;
        }
        if self.wrong() {
            let n = self.fresh("noq");
            w.push(&n);
            return true;
        }
        if nq > 0 && (nr == 0 || self.r.chance(1, 2)) {
            let n = self.r.pick(&self.sc.qubits).clone();
            w.push(&n);
        } else {
            let (n, len) = self.r.pick(&self.sc.qregs).clone();
            let idx = if self.wrong() { len + 2 } else { self.r.below(len.max(1)) };
            w.push(&format!("{}[{}]", n, idx));
        }
        true
    }

    /// One statement. Returns the number of graph statements it yields *when it is a top-level
    /// statement* (0 or 1). `depth` = block nesting, `global` = at global scope.
    fn stmt(&mut self, w: &mut Tw, depth: usize, global: bool, file: usize) -> usize {
        // weights of statement kinds
        let mut wt = [0u32; 24];
        wt[0] = 10; // int decl
        wt[1] = 4; // const decl
        wt[2] = 4; // float decl
        wt[3] = 6; // decl from expression
        wt[4] = 4; // assignment
        wt[5] = 3; // bool decl
        wt[6] = 3; // bit decl with bit string
        wt[7] = if global { 5 } else { 0 }; // qubit
        wt[8] = if global { 4 } else { 0 }; // qubit register
        wt[9] = if global && self.sw.gates { 4 } else { 0 }; // gate def
        wt[10] = 6; // gate call
        wt[11] = if global && self.sw.defs { 3 } else { 0 }; // def
        wt[12] = if self.sw.defs { 3 } else { 0 }; // def call
        wt[13] = if self.sw.annotations && global { 2 } else { 0 }; // annotation
        wt[14] = if self.sw.annotations && global { 2 } else { 0 }; // pragma
        wt[15] = if self.sw.control_flow && depth < 3 { 4 } else { 0 }; // if
        wt[16] = if self.sw.control_flow && depth < 3 { 2 } else { 0 }; // while
        wt[17] = if self.sw.control_flow && depth < 3 { 3 } else { 0 }; // for
        wt[18] = 2; // measure
        wt[19] = 2; // reset / barrier
        wt[20] = if !global && self.sw.nested_includes { 3 } else { 0 }; // include below global scope
        wt[21] = if self.sw.misc { 8 } else { 0 }; // assorted further statement kinds
        wt[22] = if !global && self.sw.semantic_errors > 0 { 1 } else { 0 }; // qubit decl in local scope
        wt[23] = 1; // uint/angle decl
        match self.r.weighted(&wt) {
            0 => {
                let n = self.var_name("v");
                if self.safe || self.collided {
                    w.push(&format!("int[32] {};", n));
                } else {
                    w.push(&format!("int[32] {} = ", n));
                    self.int_lit(w);
                    w.push(";");
                }
                self.sc.ints.push(n);
                1
            }
            1 if self.safe => {
                let n = self.fresh("v");
                w.push(&format!("int[16] {};", n));
                self.sc.ints.push(n);
                1
            }
            1 => {
                let n = self.fresh("c");
                w.push(&format!("const int[32] {} = ", n));
                let v = self.r.pick_str(&["2", "3", "4"]);
                w.push(v);
                w.push(";");
                self.sc.consts.push(n);
                1
            }
            2 => {
                let n = self.var_name("f");
                if self.safe || self.collided {
                    w.push(&format!("float[64] {};", n));
                } else {
                    w.push(&format!("float[64] {} = ", n));
                    self.float_lit(w);
                    w.push(";");
                }
                self.sc.floats.push(n);
                1
            }
            3 => {
                let n = self.var_name("w");
                if self.safe || self.collided {
                    // the initialiser must not be constant: lead with a non-constant variable
                    if self.sc.ints.is_empty() {
                        w.push(&format!("int[32] {};", n));
                    } else {
                        let a = self.r.pick(&self.sc.ints).clone();
                        w.push(&format!("int[32] {} = {}", n, a));
                        w.push(self.r.pick_str(&[" + ", " - ", " * ", "+"]));
                        self.int_operand(w);
                        w.push(";");
                    }
                } else {
                    w.push(&format!("int[32] {} = ", n));
                    self.int_operand(w);
                    w.push(self.r.pick_str(&[" + ", " - ", " * ", "+"]));
                    self.int_operand(w);
                    w.push(";");
                }
                self.sc.ints.push(n);
                1
            }
            4 => {
                let target = if self.wrong() && !self.sc.consts.is_empty() {
                    self.r.pick(&self.sc.consts).clone()
                } else if !self.sc.ints.is_empty() {
                    self.r.pick(&self.sc.ints).clone()
                } else {
                    let n = self.fresh("undef");
                    n
                };
                w.push(&format!("{} = ", target));
                self.int_operand(w);
                w.push(";");
                1
            }
            5 => {
                let n = self.var_name("b");
                let v = self.r.pick_str(&["true", "false"]);
                if self.safe || self.collided {
                    w.push(&format!("bool {};", n));
                } else {
                    w.push(&format!("bool {} = {};", n, v));
                }
                self.sc.bools.push(n);
                1
            }
            6 => {
                let n = self.var_name("bs");
                if self.safe || self.collided {
                    w.push(&format!("bit[4] {};", n));
                } else {
                    w.push(&format!("bit[4] {} = ", n));
                    w.lexeme("bit_string", self.r.pick_str(&["\"0101\"", "\"1111\"", "\"0000\"", "'1010'"]));
                    w.push(";");
                }
                self.sc.bits.push(n);
                1
            }
            7 => {
                let n = self.var_name("q");
                w.push(&format!("qubit {};", n));
                self.sc.qubits.push(n);
                1
            }
            8 => {
                let n = self.var_name("r");
                let len = 2 + self.r.below(3);
                if !self.sc.consts.is_empty() && self.r.chance(1, 3) {
                    // const used as a designator (the `const_values` side table crosses files)
                    let c = self.r.pick(&self.sc.consts).clone();
                    w.push(&format!("qubit[{}] {};", c, n));
                    self.sc.qregs.push((n, 2));
                } else {
                    w.push(&format!("qubit[{}] {};", len, n));
                    self.sc.qregs.push((n, len));
                }
                1
            }
            9 => {
                let n = self.fresh("g");
                let np = self.r.below(3);
                let nq = 1 + self.r.below(2);
                let ps: Vec<String> = (0..np).map(|i| format!("p{}", i)).collect();
                let qs: Vec<String> = (0..nq).map(|i| format!("a{}", i)).collect();
                if np > 0 {
                    w.push(&format!("gate {}({}) {} {{ ", n, ps.join(", "), qs.join(", ")));
                    w.push(&format!("U({}, 0, 0) a0; ", ps[0]));
                } else {
                    w.push(&format!("gate {} {} {{ ", n, qs.join(", ")));
                    w.push("U(0, 0, 0) a0; ");
                }
                if nq > 1 && self.r.chance(1, 2) {
                    w.push("U(0.5, 0, 0) a1; ");
                }
                if self.sw.nested_includes && self.r.chance(1, 8) {
                    self.nested_include(w, file);
                    w.push(" ");
                }
                w.push("}");
                self.sc.gates.push((n, np, nq));
                1
            }
            10 => {
                if self.sc.qubits.is_empty() && self.sc.qregs.is_empty() {
                    w.push("int[32] ");
                    let n = self.fresh("v");
                    w.push(&format!("{};", n));
                    self.sc.ints.push(n);
                    return 1;
                }
                let (g, np, nq) = if !self.sc.gates.is_empty() && self.r.chance(1, 2) {
                    self.r.pick(&self.sc.gates).clone()
                } else if self.std_included && self.r.chance(2, 3) {
                    let (n, p, q) = *self.r.pick(STD_SAMPLE);
                    (n.to_string(), p, q)
                } else if self.wrong() {
                    (self.fresh("nogate"), 0, 1)
                } else {
                    ("U".to_string(), 3, 1)
                };
                let np_used = if self.wrong() { np + 1 } else { np };
                let nq_used = if self.wrong() { nq + 1 } else { nq };
                w.push(&g);
                if np_used > 0 {
                    w.push("(");
                    for i in 0..np_used {
                        if i > 0 {
                            w.push(", ");
                        }
                        self.float_lit(w);
                    }
                    w.push(")");
                }
                w.push(" ");
                for i in 0..nq_used {
                    if i > 0 {
                        w.push(", ");
                    }
                    self.qubit_operand(w);
                }
                w.push(";");
                1
            }
            11 => {
                let n = self.fresh("fn");
                let np = 1 + self.r.below(2);
                let ps: Vec<String> = (0..np).map(|i| format!("int[32] k{}", i)).collect();
                w.push(&format!("def {}({}) -> int[32] {{ ", n, ps.join(", ")));
                if self.sw.nested_includes && self.r.chance(1, 8) {
                    self.nested_include(w, file);
                    w.push(" ");
                }
                if self.r.chance(1, 3) {
                    w.push("int[32] t = k0 + 1; return t; ");
                } else {
                    w.push("return k0; ");
                }
                w.push("}");
                self.sc.defs.push((n, np));
                1
            }
            12 => {
                if self.sc.defs.is_empty() {
                    let n = self.var_name("v");
                    w.push(&format!("int[32] {};", n));
                    self.sc.ints.push(n);
                    return 1;
                }
                let (f, np) = self.r.pick(&self.sc.defs).clone();
                let n = self.var_name("y");
                let used = if self.wrong() { np + 1 } else { np };
                w.push(&format!("int[32] {} = {}(", n, f));
                for i in 0..used {
                    if i > 0 {
                        w.push(", ");
                    }
                    self.int_lit(w);
                }
                w.push(");");
                self.sc.ints.push(n);
                1
            }
            13 => {
                self.counter += 1;
                let t = if self.sw.non_ascii {
                    format!("@annot{} some ünï text \"x", self.counter)
                } else {
                    format!("@annot{} some text", self.counter)
                };
                w.push(&t);
                w.push("\n");
                0
            }
            14 => {
                self.counter += 1;
                let t = if self.sw.non_ascii {
                    format!("pragma p{} ü /* not a comment", self.counter)
                } else {
                    format!("pragma p{} text", self.counter)
                };
                w.push(&t);
                w.push("\n");
                1
            }
            15 if self.r.chance(1, 5) => {
                // body without braces: a single statement
                w.push("if (");
                self.cond(w);
                w.push(") ");
                self.single_body(w, depth, file);
                if self.r.chance(1, 4) {
                    w.push(" else ");
                    self.single_body(w, depth, file);
                }
                1
            }
            16 | 17 if self.r.chance(1, 6) => {
                if self.r.chance(1, 2) {
                    w.push("while (");
                    self.cond(w);
                    w.push(") ");
                    self.single_body(w, depth, file);
                } else {
                    let v = self.fresh("i");
                    w.push(&format!("for int[32] {} in [0:2] ", v));
                    let m = self.sc.mark();
                    self.sc.ints.push(v);
                    self.single_body(w, depth, file);
                    self.sc.reset(m);
                }
                1
            }
            15 => {
                w.push("if (");
                self.cond(w);
                w.push(") {");
                self.block(w, depth, file);
                w.push("}");
                if self.r.chance(1, 3) {
                    w.push(" else {");
                    self.block(w, depth, file);
                    w.push("}");
                }
                1
            }
            16 => {
                w.push("while (");
                self.cond(w);
                w.push(") {");
                self.block(w, depth, file);
                w.push("}");
                1
            }
            17 => {
                let v = self.fresh("i");
                w.push(&format!("for int[32] {} in [0:3] {{", v));
                let m = self.sc.mark();
                self.sc.ints.push(v);
                self.block_inner(w, depth, file);
                self.sc.reset(m);
                w.push("}");
                1
            }
            18 => {
                let mut t = Tw::default();
                if !self.qubit_operand(&mut t) {
                    let n = self.var_name("v");
                    w.push(&format!("int[32] {};", n));
                    self.sc.ints.push(n);
                    return 1;
                }
                let n = self.var_name("m");
                w.push(&format!("bit {} = measure {};", n, t.s));
                self.sc.bits.push(n);
                1
            }
            19 => {
                let mut t = Tw::default();
                if !self.qubit_operand(&mut t) {
                    let n = self.var_name("v");
                    w.push(&format!("int[32] {};", n));
                    self.sc.ints.push(n);
                    return 1;
                }
                let kw = self.r.pick_str(&["reset", "barrier"]);
                w.push(&format!("{} {};", kw, t.s));
                1
            }
            20 => {
                self.nested_include(w, file);
                1
            }
            21 => self.misc_stmt(w, depth, global, file),
            22 => {
                let n = self.fresh("lq");
                w.push(&format!("qubit {};", n));
                1
            }
            _ => {
                let n = self.var_name("u");
                if self.safe || self.collided {
                    w.push(&format!("uint[8] {};", n));
                } else if self.r.chance(1, 2) {
                    w.push(&format!("uint[8] {} = ", n));
                    self.int_lit(w);
                    w.push(";");
                } else {
                    w.push(&format!("angle[16] {} = ", n));
                    self.float_lit(w);
                    w.push(";");
                }
                1
            }
        }
    }

    /// Further statement kinds, each probed to be analysed without panic on the pinned tree
    /// (also when redeclared). All yield exactly one graph statement at top level.
    fn misc_stmt(&mut self, w: &mut Tw, depth: usize, global: bool, file: usize) -> usize {
        let in_loop = depth > 0;
        match self.r.below(22) {
            0 => {
                // gate modifier on a call
                let mut t = Tw::default();
                if !self.qubit_operand(&mut t) {
                    w.push("end;");
                    return 1;
                }
                let m = self.r.pick_str(&["inv @ ", "pow(2) @ ", "inv @ pow(3) @ "]);
                w.push(&format!("{}U(0.5, 0, 0) {};", m, t.s));
            }
            1 if global => {
                let n = self.var_name("inp");
                let ty = self.r.pick_str(&["int[32]", "float[64]", "bit[2]", "bool"]);
                w.push(&format!("input {} {};", ty, n));
                self.sc.ints.push(n);
            }
            2 if global => {
                let n = self.var_name("outp");
                w.push(&format!("output bit[2] {};", n));
            }
            3 => {
                let n = self.var_name("d");
                if self.safe || self.collided {
                    w.push(&format!("stretch {};", n));
                } else {
                    w.push(&format!("duration {} = 10ns;", n));
                }
            }
            4 => {
                let mut t = Tw::default();
                if !self.qubit_operand(&mut t) {
                    w.push("end;");
                    return 1;
                }
                let d = if self.wrong() { "5" } else { self.r.pick_str(&["10ns", "2us", "1dt"]) };
                w.push(&format!("delay[{}] {};", d, t.s));
            }
            5 if depth < 3 && self.sw.control_flow => {
                w.push("switch (");
                self.int_operand(w);
                w.push(") { case 1 {");
                self.block(w, depth, file);
                w.push("} case 2, 3 {");
                self.block(w, depth, file);
                w.push("}");
                if self.r.chance(1, 2) {
                    w.push(" default {");
                    self.block(w, depth, file);
                    w.push("}");
                }
                w.push(" }");
            }
            6 if depth < 3 && self.sw.control_flow => {
                let v = self.fresh("k");
                w.push(&format!("for int[32] {} in {{1, 2, 5}} {{", v));
                let m = self.sc.mark();
                self.sc.ints.push(v);
                self.block_inner(w, depth, file);
                if self.r.chance(1, 3) {
                    w.push(self.r.pick_str(&["break; ", "continue; "]));
                }
                self.sc.reset(m);
                w.push("}");
            }
            7 if in_loop => w.push(self.r.pick_str(&["break;", "continue;"])),
            8 => w.push("end;"),
            9 => {
                let n = self.var_name("z");
                w.push(&format!("complex[float[64]] {};", n));
            }
            10 => {
                let q = self.r.pick_str(&["$0", "$1", "$2", "$7"]);
                match self.r.below(3) {
                    0 => w.push(&format!("measure {};", q)),
                    1 => w.push(&format!("reset {};", q)),
                    _ => w.push(&format!("U(0, 0.5, 0) {};", q)),
                }
            }
            11 => {
                let n = self.var_name("f");
                let c = self.r.pick_str(&["pi", "π", "euler", "tau", "τ", "ℇ"]);
                if self.safe || self.collided {
                    // the initialiser is constant: keep the declaration free of it
                    w.push(&format!("float[64] {};", n));
                } else {
                    w.push(&format!("float[64] {} = {};", n, c));
                }
                self.sc.floats.push(n);
            }
            12 => {
                if self.sc.ints.is_empty() {
                    w.push("end;");
                    return 1;
                }
                let t = self.r.pick(&self.sc.ints).clone();
                match self.r.below(3) {
                    0 => {
                        w.push(&format!("{} = -", t));
                        self.int_operand(w);
                        w.push(";");
                    }
                    1 => w.push(&format!("{} = int[32](1.5);", t)),
                    _ => {
                        w.push(&format!("{} = int[32](", t));
                        self.float_lit(w);
                        w.push(");");
                    }
                }
            }
            13 if global => {
                let n = self.fresh("ext");
                w.push(&format!("extern {}(int[32]) -> int[32];", n));
            }
            14 if global => {
                w.push("defcalgrammar ");
                w.lexeme("string", self.r.pick_str(&["\"openpulse\"", "'openpulse'", "'open\\'pulse'", "\"open\\\"pulse\"", "'né\\'ø'"]));
                w.push(";");
            }
            15 if global => {
                let q = self.r.pick_str(&["$0", "$1"]);
                w.push(&format!("defcal x {} {{ play(drive({}), gaussian(100, 30, 5)); }}", q, q));
            }
            16 => {
                let n = self.var_name("arr");
                w.push(&format!("array[int[32], 3] {};", n));
            }
            17 if global && self.sw.defs => {
                let n = self.fresh("mq");
                w.push(&format!("def {}(qubit qq) -> bit {{ return measure qq; }}", n));
            }
            18 if !self.safe && !self.sc.consts.is_empty() => {
                let c = self.r.pick(&self.sc.consts).clone();
                let n = self.var_name("wide");
                if self.collided {
                    w.push(&format!("bit[{}] {};", c, n));
                } else {
                    w.push(&format!("int[{}] {};", c, n));
                }
            }
            19 if global && self.sw.semantic_errors > 0 => {
                w.push("return 1;");
            }
            20 if !global && self.sw.semantic_errors > 0 && self.sw.gates => {
                let n = self.fresh("lg");
                w.push(&format!("gate {} a {{ U(0, 0, 0) a; }}", n));
            }
            _ => {
                let n = self.var_name("v");
                w.push(&format!("int[32] {};", n));
                self.sc.ints.push(n);
            }
        }
        let _ = global;
        1
    }

    fn cond(&mut self, w: &mut Tw) {
        if !self.sc.bools.is_empty() && self.r.chance(1, 3) {
            let b = self.r.pick(&self.sc.bools).clone();
            w.push(&b);
        } else {
            self.int_operand(w);
            w.push(self.r.pick_str(&[" == ", " != ", "==", " !=  "]));
            self.int_operand(w);
        }
    }

    /// The single, brace-less statement that is the body of an `if`/`else`/`while`/`for`.
    fn single_body(&mut self, w: &mut Tw, depth: usize, file: usize) {
        let m = self.sc.mark();
        if self.sw.nested_includes && self.r.chance(1, 3) {
            self.nested_include(w, file);
        } else if !self.sc.ints.is_empty() {
            let t = self.r.pick(&self.sc.ints).clone();
            w.push(&format!("{} = ", t));
            self.int_operand(w);
            w.push(";");
        } else {
            let _ = depth;
            let n = self.fresh("v");
            w.push(&format!("int[32] {};", n));
        }
        self.sc.reset(m);
    }

    fn block(&mut self, w: &mut Tw, depth: usize, file: usize) {
        let m = self.sc.mark();
        self.block_inner(w, depth, file);
        if self.sw.nested_includes && self.r.chance(1, 8) {
            // a nested block that ends the block (the parser takes it for a tail expression),
            // with an include in it: one more place below global scope (defect D6)
            w.push("{ ");
            if self.r.chance(1, 2) {
                let n = self.fresh("t");
                w.push(&format!("int[32] {}; ", n));
            }
            self.nested_include(w, file);
            w.push(" } ");
        }
        self.sc.reset(m);
    }

    fn block_inner(&mut self, w: &mut Tw, depth: usize, file: usize) {
        let n = self.r.below(3);
        w.push(" ");
        for _ in 0..n {
            self.stmt(w, depth + 1, false, file);
            w.push(self.r.pick_str(&[" ", "\n", "\n  "]));
        }
    }

    /// An include statement below global scope: reported, never resolved.
    fn nested_include(&mut self, w: &mut Tw, file: usize) {
        let at = w.s.len();
        let name = if self.r.chance(1, 3) {
            "stdgates.inc".to_string()
        } else if !self.files.is_empty() {
            let j = self.r.below(self.files.len());
            self.files[j].name.clone()
        } else {
            "nowhere.inc".to_string()
        };
        w.push("include ");
        let escaped = name.replace('\\', "\\\\").replace('"', "\\\"");
        w.lexeme("string", &format!("\"{}\"", escaped));
        w.push(";");
        let _ = file;
        self.pending_nested.push(at);
    }

    /// Spell an include of logical file `j`; returns (text of the path literal or None when the
    /// statement has no literal, expected value).
    fn spell_include(&mut self, j: usize) -> (String, Option<String>) {
        let name = self.files[j].name.clone();
        if self.sw.unusable_includes && self.r.chance(1, 12) {
            return match self.r.below(4) {
                0 => ("".into(), None),                       // include;
                1 => ("3".into(), None),                      // include 3;
                2 => ("\"0101\"".into(), None),               // a bit string
                // invalid escape (quote characters of the name escaped, so that the literal ends
                // where it should)
                _ => (
                    format!("\"a\\q{}\"", name.replace('\\', "\\\\").replace('"', "\\\"")),
                    None,
                ),
            };
        }
        let k = if self.sw.odd_spellings { self.r.below(16) } else { self.r.below(4) + 12 };
        let dirs_of_j = self.placement[j].clone();
        let value: String = match k {
            0 => format!("./{}", name),
            1 if !dirs_of_j.is_empty() => format!("{}/{}", self.r.pick(&dirs_of_j), name), // absolute, exists
            2 => format!("{}/{}", self.r.pick(&self.dirs).clone(), name),                   // absolute, may not exist
            3 => {
                // dot-dot through a sibling directory
                let d = self.r.pick(&self.dirs).clone();
                let base = d.rsplit('/').next().unwrap_or("d1").to_string();
                format!("../{}/{}", base, name)
            }
            4 => format!("{}/", name), // trailing slash: never a file
            5 => format!("nonexistent/../{}", name),
            6 => "missing.inc".to_string(),
            7 => format!("./././{}", name),
            8 => format!("sub/../{}", name),
            9 => String::new(), // include "";
            10 if !dirs_of_j.is_empty() => {
                // absolute paths whose lexical and file-system resolution differ (or not)
                let d = self.r.pick(&dirs_of_j).clone();
                match self.r.below(5) {
                    0 => format!("{}/nonexistent/../{}", d, name), // ENOENT for the kernel
                    1 => format!("{}/{}/", d, name),               // trailing slash on a file
                    2 => format!("{}/./sub/../{}", d, name),       // fine: sub exists
                    3 => format!("{}/{}/../{}", d, name, name),    // `..` after a regular file
                    _ => format!("{}//{}", d, name),
                }
            }
            _ => name.clone(),
        };
        // spelling of the literal: a value with a quote character in it must escape it (or use
        // the other kind of quote); a non-ASCII character may be written as an escape
        let has_sq = value.contains('\'');
        let has_dq = value.contains('"');
        let lit = if value.contains('\\') {
            // a backslash must be written as an escape
            match self.r.below(2) {
                0 => format!("\"{}\"", value.replace('\\', "\\\\")),
                _ => format!("'{}'", value.replace('\\', "\\x5c")),
            }
        } else if has_dq {
            // (a bare `"` inside a single-quoted literal does not evaluate in this front end: that
            // is a matter of literal evaluation, property C10, and is not generated)
            match self.r.below(2) {
                0 => format!("\"{}\"", value.replace('"', "\\\"")),
                _ => format!("'{}'", value.replace('"', "\\\"")),
            }
        } else if has_sq {
            match self.r.below(3) {
                0 => format!("\"{}\"", value),
                1 => format!("'{}'", value.replace('\'', "\\'")),
                _ => format!("\"{}\"", value.replace('\'', "\\'")),
            }
        } else {
            match self.r.below(if self.sw.odd_spellings { 8 } else { 2 }) {
                0 | 1 => format!("\"{}\"", value),
                2 => format!("'{}'", value),
                3 => format!("\"{}\"", value.replace('.', "\\x2e")),
                4 => format!("\"{}\"", value.replace('f', "\\x66")),
                5 => format!("\"{}\"", value.replace('é', "\\xe9")),
                6 => format!("'{}'", value.replace('é', self.r.pick_str(&["\\u{e9}", "\\u{00e9}", "\\u{0000E9}"]))),
                _ => format!("\"{}\"", value),
            }
        };
        (lit, Some(value))
    }

    /// Generate the body of logical file `i` (or the main text when `i == usize::MAX`).
    fn gen_file(&mut self, i: usize, is_main: bool) {
        let mut w = Tw {
            crlf: self.sw.crlf && self.r.chance(2, 3),
            ..Default::default()
        };
        let mut meta = FileMeta::default();
        let file_ix = i;
        if (is_main && self.r.chance(1, 4)) || (!is_main && self.sw.literals_rich && self.r.chance(1, 10)) {
            w.lexeme("version", self.r.pick_str(&["OPENQASM 3.0", "OPENQASM 3", "OPENQASM 3.1"]));
            w.push(";\n");
        }
        if is_main && self.sw.stdgates && self.r.chance(1, 10) {
            // a user gate named like one of the standard library, with another signature, defined
            // before anything else: it keeps its binding whatever is included later (R6)
            meta.stmt_starts.push(w.s.len());
            let (name, np, nq) = crate::model::STDGATES[self.r.below(crate::model::STDGATES.len())];
            let params: Vec<String> = (0..np + 1).map(|k| format!("a{}", k)).collect();
            let qubits: Vec<String> = (0..nq).map(|k| format!("q{}", k)).collect();
            w.push(&format!("gate {}({}) {} {{ }}\n", name, params.join(", "), qubits.join(", ")));
            meta.graph_stmts += 1;
        }
        if !is_main && !self.cycle && self.r.chance(1, 14) {
            // a degenerate included file: empty, blank, or comments only
            let t = self.r.pick_str(&["", "\n", "   ", "// nothing here\n", "// no newline at the end"]);
            w.push(t);
            if self.sw.comments && self.r.chance(1, 2) {
                if !w.s.is_empty() && !w.s.ends_with('\n') {
                    w.push("\n");
                }
                w.lexeme("block_comment", "/* only a comment */");
            }
            self.files[file_ix].meta = meta;
            self.files[file_ix].body = Some(w);
            return;
        }
        let mut n_stmts = if is_main { 2 + self.r.below(10) } else { 1 + self.r.below(7) };
        if self.sw.big {
            n_stmts *= 3;
        }
        let candidates: Vec<usize> = self.files[file_ix].includes.clone();
        for _ in 0..n_stmts {
            let start = w.s.len();
            let roll = self.r.below(100);
            let want_include = !candidates.is_empty() && roll < if is_main { 35 } else { 25 };
            let j = if candidates.is_empty() { 0 } else { *self.r.pick(&candidates) };
            let again_ok = !candidates.is_empty() && (self.files[j].body.is_none() || self.multi[j]);
            if want_include && again_ok && self.expansions_left > 0 {
                // generate the included file first, in flattened order, so that what it declares
                // is known to the statements that follow the include
                let cost = 1 + self.files[j].expansions;
                if self.files[j].body.is_none() && !self.cycle {
                    let saved = self.safe;
                    self.safe = self.multi[j];
                    self.gen_file(j, false);
                    self.safe = saved;
                }
                let cost = if self.cycle { 1 } else if self.files[j].body.is_some() { 1 + self.files[j].expansions } else { cost };
                if cost <= self.expansions_left {
                    self.expansions_left -= cost;
                    self.files[file_ix].expansions += cost;
                    let (lit, value) = self.spell_include(j);
                    meta.stmt_starts.push(start);
                    meta.includes.push((start, value));
                    if lit.is_empty() {
                        w.push("include;");
                    } else if lit.starts_with('"') || lit.starts_with('\'') {
                        w.push("include ");
                        if lit == "\"0101\"" {
                            w.push(&lit);
                        } else {
                            w.lexeme("string", &lit);
                        }
                        w.push(";");
                    } else {
                        w.push(&format!("include {};", lit));
                    }
                    self.trivia(&mut w);
                    continue;
                }
            }
            if self.sw.stdgates && self.sw.odd_spellings && roll == 91 && self.expansions_left > 0 {
                // a path that is *almost* the standard library: an ordinary file include
                self.expansions_left -= 1;
                self.files[file_ix].expansions += 1;
                let value = self
                    .r
                    .pick_str(&[
                        "stdgates.inc/",
                        "./stdgates.inc",
                        "stdgates.inc/.",
                        "stdgates.inc//",
                        "STDGATES.INC",
                        "stdgates.inc ",
                        "sub/../stdgates.inc",
                        "stdgates.incx",
                        " stdgates.inc",
                    ])
                    .to_string();
                meta.stmt_starts.push(start);
                meta.includes.push((start, Some(value.clone())));
                w.push("include ");
                w.lexeme("string", &format!("\"{}\"", value));
                w.push(";");
                self.trivia(&mut w);
                continue;
            }
            if self.sw.stdgates && roll >= 92 {
                meta.stmt_starts.push(start);
                meta.includes.push((start, Some("stdgates.inc".into())));
                w.push("include ");
                let lit = self.r.pick_str(&["\"stdgates.inc\"", "\"stdgates.inc\"", "'stdgates.inc'", "\"stdgates\\x2einc\""]);
                w.lexeme("string", lit);
                w.push(";");
                self.std_included = true;
                self.trivia(&mut w);
                continue;
            }
            meta.stmt_starts.push(start);
            let c = self.stmt(&mut w, 0, true, file_ix);
            meta.nested_includes.append(&mut self.pending_nested);
            meta.graph_stmts += c;
            if !w.s.ends_with('\n') {
                self.trivia(&mut w);
            }
        }
        if self.r.chance(1, 3) && w.s.ends_with('\n') {
            // no final newline
            while w.s.ends_with('\n') || w.s.ends_with(' ') || w.s.ends_with('\t') {
                w.s.pop();
            }
        }
        meta.nested_includes.sort();
        self.files[file_ix].meta = meta;
        self.files[file_ix].body = Some(w);
    }
}

fn draw_swarm(r: &mut Rng, profile: Profile) -> Swarm {
    let spans = profile == Profile::Spans;
    Swarm {
        non_ascii: r.chance(if spans { 3 } else { 1 }, 4),
        semantic_errors: match r.below(4) {
            0 => 0,
            1 => 5,
            2 => 15,
            _ => {
                if spans {
                    35
                } else {
                    10
                }
            }
        },
        control_flow: r.chance(2, 3),
        gates: r.chance(3, 4),
        defs: r.chance(1, 2),
        literals_rich: r.chance(2, 3),
        d3_literals: r.chance(1, 6),
        comments: r.chance(2, 3),
        annotations: r.chance(1, 2),
        nested_includes: r.chance(1, 3),
        unusable_includes: r.chance(1, 6),
        odd_spellings: r.chance(1, 2),
        colliding_names: r.chance(1, 3),
        stdgates: r.chance(1, 2),
        misc: r.chance(1, 2),
        big: r.chance(1, 10),
        crlf: r.chance(1, 8),
        symlinks: r.chance(1, 5),
    }
}

fn marker_line(file: usize, copy: usize) -> String {
    format!("int[32] mk_{}_{};\n", file, copy % 10)
}

/// The layout part of a generated world, kept for the fault planner.
pub struct Generated {
    pub world: World,
    /// lexemes per stored path (offsets in the stored pristine content)
    pub lexemes: BTreeMap<String, (Vec<Lexeme>, Vec<(usize, usize)>)>,
    pub stratum: Stratum,
}

/// Generate a pristine world (no faults yet). `root` is the absolute path under which the whole
/// simulated tree lives ("/w" normally; the scratch directory in the real-FS differential).
pub fn gen_pristine(r: &mut Rng, profile: Profile, root: &str, cycle: bool) -> Generated {
    let sw = draw_swarm(r, profile);
    let mut world = World::empty();
    world.mkdir_p(root);
    let all_dirs: Vec<String> = ["d1", "d2", "d3"].iter().map(|d| format!("{}/{}", root, d)).collect();
    let other = format!("{}/other", root);
    for d in all_dirs.iter().chain(std::iter::once(&other)) {
        world.mkdir_p(d);
        world.mkdir_p(&format!("{}/sub", d));
    }
    let cwd = if r.chance(1, 3) {
        let p = format!("{}/proj", root);
        world.mkdir_p(&p);
        p
    } else {
        root.to_string()
    };
    world.cwd = cwd.clone();

    // ---- search list
    let ndirs = 1 + r.below(3);
    let mut chosen: Vec<String> = vec![];
    for i in 0..ndirs {
        chosen.push(all_dirs[(i + r.below(3)) % 3].clone());
    }
    let spell_dir = |r: &mut Rng, d: &str, cwd: &str, root: &str| -> String {
        let base = d.rsplit('/').next().unwrap();
        let rel = if cwd == root { base.to_string() } else { format!("../{}", base) };
        match r.below(7) {
            0 => rel,
            1 => format!("./{}", rel),
            2 => format!("{}/", d),
            3 => format!("{}/sub/..", d),
            _ => d.to_string(),
        }
    };
    let mut list: Vec<String> = chosen.iter().map(|d| spell_dir(r, d, &cwd, root)).collect();
    if r.chance(1, 8) {
        list.insert(r.below(list.len() + 1), format!("{}/nonexistent", root));
    }
    if r.chance(1, 12) {
        list.insert(r.below(list.len() + 1), String::new());
    }
    if r.chance(1, 12) {
        let p = format!("{}/afile", root);
        world.put_file(&p, b"int[32] zz = 1;\n".to_vec());
        list.insert(r.below(list.len() + 1), p);
    }
    let use_env = r.chance(1, 3);
    let env_join = |l: &[String]| l.join(":");
    if use_env {
        world.list = None;
        world.env = match r.below(8) {
            0 => None,
            1 => Some(String::new()),
            2 => Some(format!("{}::{}", env_join(&list), other)), // empty component inside
            _ => Some(env_join(&list)),
        };
    } else {
        world.list = if r.chance(1, 12) { Some(vec![]) } else { Some(list.clone()) };
        // a misleading environment value: it must be ignored when a list is given
        world.env = if r.chance(2, 3) { Some(other.clone()) } else { None };
    }

    // ---- logical files and include graph (acyclic: i may include j > i)
    let nfiles = 1 + r.below(4);
    let mut files: Vec<LogicalFile> = (0..nfiles)
        .map(|i| {
            let base = if sw.non_ascii && r.chance(1, 5) {
                format!("fé{}.inc", i)
            } else {
                format!("f{}.inc", i)
            };
            // rarely a file is literally called like the fake path of string sources
            let base = if r.chance(1, 30) { "no file".to_string() } else { base };
            // or has a quote character in its name (legal, and the include must escape it)
            let base = match r.below(40) {
                0 => format!("q'x{}.inc", i),
                1 => format!("q\"x{}.inc", i),
                2 => format!("b\\s{}.inc", i), // a backslash in the name
                _ => base,
            };
            let name = if r.chance(1, 6) { format!("sub/{}", base) } else { base };
            LogicalFile {
                name,
                body: None,
                meta: FileMeta::default(),
                includes: vec![],
                expansions: 0,
            }
        })
        .collect();
    // rarely two files whose paths differ only in letter case (distinct files on the simulated,
    // case-sensitive file system)
    for i in 1..nfiles {
        if r.chance(1, 16) {
            let prev = files[i - 1].name.clone();
            let (dir, base) = match prev.rfind('/') {
                Some(k) => (&prev[..=k], &prev[k + 1..]),
                None => ("", prev.as_str()),
            };
            let mut cs = base.chars();
            if let Some(c) = cs.next() {
                let up: String = c.to_uppercase().collect();
                let variant = format!("{}{}{}", dir, up, cs.as_str());
                if variant != prev && !files.iter().any(|f| f.name == variant) {
                    files[i].name = variant;
                }
            }
        }
    }
    // depth of logical file in the include chain, so that nesting stays <= 3
    let mut level = vec![1usize; nfiles];
    for i in 0..nfiles {
        for j in (i + 1)..nfiles {
            if level[i] < 3 && r.chance(1, 2) {
                files[i].includes.push(j);
                level[j] = level[j].max(level[i] + 1);
            }
        }
    }
    if cycle {
        // add a back edge: a file includes itself or an ancestor
        let i = r.below(nfiles);
        let j = r.below(i + 1);
        files[i].includes.push(j);
        if i != j && !files[j].includes.contains(&i) {
            files[j].includes.push(i);
        }
    }
    // main = pseudo file at index nfiles
    files.push(LogicalFile {
        name: "main.qasm".into(),
        body: None,
        meta: FileMeta::default(),
        includes: (0..nfiles).collect(),
        expansions: 0,
    });

    // ---- placement of copies
    let mut placement: Vec<Vec<String>> = vec![];
    for _ in 0..nfiles {
        let mut dirs_of: Vec<String> = vec![];
        let mode = r.below(16);
        for d in all_dirs.iter() {
            let p = match mode {
                0 => false,            // nowhere (only the unlisted decoy directory has it)
                1 | 2 | 3 => true,     // everywhere
                _ => r.chance(3, 5),
            };
            if p {
                dirs_of.push(d.clone());
            }
        }
        if r.chance(1, 6) {
            dirs_of.push(cwd.clone());
        }
        // the decoy directory of the misleading environment always has a copy
        dirs_of.push(other.clone());
        placement.push(dirs_of);
    }

    let mut g = G {
        r,
        sw: sw.clone(),
        sc: Scope::default(),
        counter: 0,
        files,
        dirs: all_dirs.clone(),
        placement: placement.clone(),
        std_included: false,
        expansions_left: 48,
        cycle,
        pending_nested: vec![],
        safe: cycle,
        collided: false,
        multi: vec![],
    };
    g.multi = (0..=nfiles).map(|_| cycle || g.r.chance(3, 10)).collect();
    if cycle {
        // bodies must exist before they are referenced; generate leaf-first without recursion
        // at most 2 include statements per file and 3 in the main text: with recursion refused,
        // no path of the expansion tree repeats a file, so it has at most 3*(1+2+4+8) = 45 sites
        for i in (0..nfiles).rev() {
            g.expansions_left = 2;
            g.safe = true;
            g.gen_file(i, false);
        }
        g.expansions_left = 3;
    }
    g.safe = false;
    g.gen_file(nfiles, true);
    // files never reached still need a body (they may be reached through odd spellings/faults)
    for i in 0..nfiles {
        if g.files[i].body.is_none() {
            g.expansions_left = 0;
            g.safe = true;
            g.gen_file(i, false);
        }
    }
    let total_expansions = g.files[nfiles].expansions;
    let files = std::mem::take(&mut g.files);
    let r = g.r;

    // ---- materialise
    let mut lexemes: BTreeMap<String, (Vec<Lexeme>, Vec<(usize, usize)>)> = BTreeMap::new();
    // some files carry no marker declaration (so that empty / comment-only / include-only files
    // exist as such)
    let bare_files: Vec<bool> = (0..nfiles).map(|_| r.chance(1, 8)).collect();
    for (i, f) in files.iter().take(nfiles).enumerate() {
        let body = f.body.as_ref().unwrap();
        for (copy, d) in placement[i].iter().enumerate() {
            // sometimes the very first token of the file is a lexeme whose truncation must be
            // diagnosed (a header comment), so that token index 0 is exercised in included files
            let header = if sw.comments && r.chance(1, 8) {
                if sw.non_ascii { "/* hdr β */" } else { "/* header */" }
            } else {
                ""
            };
            let bare = bare_files[i];
            let marker = if bare {
                header.to_string()
            } else if header.is_empty() {
                marker_line(i, copy)
            } else {
                format!("{}\n{}", header, marker_line(i, copy))
            };
            // rarely a copy starts with a byte-order mark, as some editors write it (a character
            // the lexer does not know: the file then has a syntax diagnostic and gates the run;
            // every offset in the file counts the three bytes)
            let bom = r.chance(1, 40);
            let (marker, header_at) = if bom { (format!("{}{}", '\u{feff}', marker), 3usize) } else { (marker, 0usize) };
            let off = marker.len();
            let path = format!("{}/{}", d, f.name);
            let text = format!("{}{}", marker, body.s);
            world.put_file(&path, text.into_bytes());
            let mut meta = f.meta.clone();
            for x in meta.includes.iter_mut() {
                x.0 += off;
            }
            for x in meta.nested_includes.iter_mut() {
                *x += off;
            }
            for x in meta.stmt_starts.iter_mut() {
                *x += off;
            }
            meta.stmt_starts.insert(0, header_at);
            if !bare {
                meta.graph_stmts += 1;
            }
            world.meta.insert(path.clone(), meta);
            let mut lx: Vec<Lexeme> = body
                .lexemes
                .iter()
                .map(|l| Lexeme {
                    start: l.start + off,
                    end: l.end + off,
                    class: l.class,
                })
                .collect();
            if !header.is_empty() {
                lx.push(Lexeme {
                    start: header_at,
                    end: header_at + header.len(),
                    class: "block_comment",
                });
            }
            let et: Vec<(usize, usize)> = body.exp_tears.iter().map(|(p, ix)| (p + off, *ix)).collect();
            lexemes.insert(path, (lx, et));
        }
    }
    if r.chance(1, 4) {
        // a decoy standard library on disk: it must never be read
        let d = r.pick(&all_dirs).clone();
        world.put_file(&format!("{}/stdgates.inc", d), b"int[32] decoy_std = 1;\n".to_vec());
    }
    let main = files[nfiles].body.as_ref().unwrap();
    let main_meta = files[nfiles].meta.clone();
    let entry_is_file = r.chance(1, 3);
    if entry_is_file {
        // main file: in the cwd, in a search directory (found through the list), or absolute
        let (store_dir, spelled): (String, String) = match r.below(4) {
            0 => (cwd.clone(), "main.qasm".into()),
            1 => {
                let d = chosen[0].clone();
                (d, "main.qasm".into())
            }
            2 => (cwd.clone(), format!("{}/main.qasm", cwd)),
            _ => (cwd.clone(), "./main.qasm".into()),
        };
        let path = format!("{}/main.qasm", store_dir);
        let mut main_text = main.s.clone();
        let mut main_meta = main_meta;
        if cycle && r.chance(1, 3) {
            // the main file includes itself (under the spelling it was opened with, or another)
            if !main_text.ends_with('\n') {
                main_text.push('\n');
            }
            let at = main_text.len();
            let value = r.pick(&[spelled.clone(), "main.qasm".to_string(), path.clone(), "./main.qasm".to_string()]).clone();
            main_text.push_str(&format!("include \"{}\";\n", value));
            main_meta.includes.push((at, Some(value)));
            main_meta.stmt_starts.push(at);
        }
        world.put_file(&path, main_text.into_bytes());
        world.meta.insert(path.clone(), main_meta);
        lexemes.insert(path, (main.lexemes.clone(), main.exp_tears.clone()));
        world.entry = if world.list.is_none() && r.chance(1, 2) {
            Entry::FilePlain { path: spelled }
        } else {
            Entry::FileSearch { path: spelled }
        };
    } else {
        world.meta.insert(String::new(), main_meta);
        world.entry = if world.list.is_none() && r.chance(1, 2) {
            Entry::StringPlain { text: main.s.clone() }
        } else {
            Entry::StringSearch { text: main.s.clone() }
        };
    }
    // ---- symbolic links (a fifth of the worlds)
    if sw.symlinks {
        // (A) a link to one of the search directories, put on the list / into QASM3_PATH in front
        // of, behind, or instead of the directory itself: files are then found under the link's
        // name while their canonical path is under the directory's
        let target_dir = r.pick(&chosen).clone();
        let link = format!("{}/dl", root);
        let base = target_dir.rsplit('/').next().unwrap_or("d1").to_string();
        let target = match r.below(3) {
            0 => base.clone(),                 // relative to the directory that holds the link
            1 => format!("{}/", target_dir),   // absolute, with a trailing slash
            _ => target_dir.clone(),
        };
        world.put_link(&link, &target);
        let spelled = match r.below(4) {
            0 if cwd == root => "dl".to_string(),
            1 => format!("{}/", link),
            2 => format!("{}/sub/..", link),
            _ => link.clone(),
        };
        let place = |r: &mut Rng, v: &mut Vec<String>| {
            let same: Vec<usize> = (0..v.len()).filter(|i| v[*i].contains(&base)).collect();
            if !same.is_empty() && r.chance(1, 3) {
                let i = *r.pick(&same);
                v[i] = spelled.clone();
            } else {
                let at = r.below(v.len() + 1);
                v.insert(at, spelled.clone());
            }
        };
        if let Some(l) = world.list.as_mut() {
            if !l.is_empty() {
                place(r, l);
            }
        } else if let Some(e) = world.env.clone() {
            if !e.is_empty() {
                let mut v: Vec<String> = e.split(':').map(|x| x.to_string()).collect();
                place(r, &mut v);
                world.env = Some(v.join(":"));
            }
        }
        // (B) some copies live elsewhere and are reached through a link of the expected name
        let copies: Vec<String> = world
            .nodes
            .iter()
            .filter(|(p, n)| matches!(n, Node::File(_)) && p.ends_with(".inc") && !p.ends_with("/stdgates.inc"))
            .map(|(p, _)| p.clone())
            .collect();
        for (k, p) in copies.iter().enumerate() {
            if !r.chance(1, 4) {
                continue;
            }
            let store = format!("{}/store/s{}.inc", root, k);
            let node = world.nodes.remove(p).unwrap();
            world.mkdir_p(&format!("{}/store", root));
            world.nodes.insert(store.clone(), node);
            let target = if r.chance(1, 2) {
                store.clone()
            } else {
                // relative to the directory that holds the link
                let dir = &p[..p.rfind('/').unwrap_or(0)];
                let ups = dir[root.len()..].split('/').filter(|x| !x.is_empty()).count();
                format!("{}store/s{}.inc", "../".repeat(ups), k)
            };
            world.nodes.insert(p.clone(), Node::Link(target));
            if let Some(m) = world.meta.remove(p) {
                world.meta.insert(store.clone(), m);
            }
            if let Some(l) = lexemes.remove(p) {
                lexemes.insert(store, l);
            }
        }
    }

    // ---- budget derived from the world
    let ndirs_cfg = match (&world.list, &world.env) {
        (Some(l), _) => l.len(),
        (None, Some(e)) => e.split(':').count(),
        (None, None) => 0,
    };
    world.budget = if cycle {
        47 * (ndirs_cfg + 4) + 8
    } else {
        (total_expansions + 2) * (ndirs_cfg + 4) + 8
    };
    world.notes.push(format!("profile={:?}", profile));
    Generated {
        world,
        lexemes,
        stratum: if cycle { Stratum::Cycle } else { Stratum::Static },
    }
}

const FLIP_BYTES: &[u8] = &[
    b'"', b'\'', b'/', b'*', b'{', b'}', b';', b'0', b'x', b'e', b'_', b'$', b'#', b'@', b'\\', b'\n',
    b' ', b'(', b'[', b')', b'.', b'1', b'b', b'E', b'+', 0,
];

/// Apply one static content/placement fault to `g`. Returns the kind applied, if any.
fn static_damage(r: &mut Rng, g: &mut Generated, profile: Profile) -> Option<&'static str> {
    let w = &mut g.world;
    // candidate stored files (the included files and the main file)
    let files: Vec<String> = w
        .nodes
        .iter()
        .filter(|(p, n)| matches!(n, Node::File(_)) && (p.ends_with(".inc") || p.ends_with(".qasm")))
        .map(|(p, _)| p.clone())
        .filter(|p| !p.contains("/other/"))
        .collect();
    if files.is_empty() {
        return None;
    }
    let path = r.pick(&files).clone();
    let bytes = match w.nodes.get(&path) {
        Some(Node::File(b)) => b.clone(),
        _ => return None,
    };
    let is_main = path.ends_with(".qasm");
    let content_weight = match profile {
        Profile::Includes => 4,
        Profile::Gating => 12,
        Profile::Spans => 9,
    };
    let kinds: [(&'static str, u32); 13] = [
        ("torn", content_weight),
        ("torn_lexeme", content_weight),
        ("zero_tail", content_weight / 2),
        ("flip", content_weight),
        ("bad_utf8", if is_main { 0 } else { 2 }),
        ("is_dir", if is_main { 0 } else { 2 }),
        ("missing", if is_main { 0 } else { 2 }),
        ("notdir", if is_main { 0 } else { 1 }),
        ("perm", if is_main { 0 } else { 3 }),
        ("eio", if is_main { 0 } else { 3 }),
        ("garbage", content_weight),
        ("dangling_link", if is_main { 0 } else { 1 }),
        ("link_loop", if is_main { 0 } else { 1 }),
    ];
    let k = kinds[r.weighted(&kinds.iter().map(|k| k.1).collect::<Vec<_>>())].0;
    let (mut lex, mut exp_tears) = g.lexemes.get(&path).cloned().unwrap_or_default();
    if w.damage.iter().any(|d| d.path == path) {
        // second damage to the same file: what is known about its lexemes no longer holds
        for d in w.damage.iter_mut().filter(|d| d.path == path) {
            d.g3 = None;
        }
        lex.clear();
        exp_tears.clear();
    }
    // Sanity filter for the generator's own lexeme records: a record is only used if the
    // pristine text really has exactly one token spanning that range (a lexeme written inside a
    // line comment, annotation or pragma, say, is not a lexeme). This can only make G3 check
    // less, never more.
    let token_spans: std::collections::BTreeSet<(usize, usize)> = match std::str::from_utf8(&bytes) {
        Ok(t) => {
            let mut v = std::collections::BTreeSet::new();
            let mut pos = 0usize;
            for tok in oq3_lexer::tokenize(t) {
                v.insert((pos, pos + tok.len as usize));
                pos += tok.len as usize;
            }
            v
        }
        Err(_) => Default::default(),
    };
    // For string literals and block comments the record is also accepted when a token of that kind
    // *starts* at the record's start: the generator writes well-formed strings, so a lexer that ends the token earlier (at
    // an escaped quote, say) is wrong about the lexeme, not the record.
    let (str_token_starts, comment_token_starts): (std::collections::BTreeSet<usize>, std::collections::BTreeSet<usize>) =
        match std::str::from_utf8(&bytes) {
            Ok(t) => {
                let mut v = std::collections::BTreeSet::new();
                let mut c = std::collections::BTreeSet::new();
                let mut pos = 0usize;
                for tok in oq3_lexer::tokenize(t) {
                    if matches!(
                        tok.kind,
                        oq3_lexer::TokenKind::Literal { kind: oq3_lexer::LiteralKind::Str { .. }, .. }
                    ) {
                        v.insert(pos);
                    }
                    if matches!(tok.kind, oq3_lexer::TokenKind::BlockComment { .. }) {
                        c.insert(pos);
                    }
                    pos += tok.len as usize;
                }
                (v, c)
            }
            Err(_) => Default::default(),
        };
    let confirmed = |l: &Lexeme| {
        token_spans.contains(&(l.start, l.end))
            || (l.class == "string" && str_token_starts.contains(&l.start))
            || (l.class == "block_comment" && comment_token_starts.contains(&l.start))
    };
    let g3_for = |p: usize| -> Option<(String, usize)> {
        for l in &lex {
            if l.tear_is_diagnosable(p) && confirmed(l) {
                return Some((l.class.to_string(), l.start));
            }
        }
        for (tp, ix) in &exp_tears {
            if *tp == p && confirmed(&lex[*ix]) {
                return Some((lex[*ix].class.to_string(), lex[*ix].start));
            }
        }
        None
    };
    match k {
        "torn" | "torn_lexeme" => {
            if bytes.is_empty() {
                return None;
            }
            let cut = if k == "torn_lexeme" && !lex.is_empty() {
                // aim at a lexeme of a class the lexer must diagnose
                let l = r.pick(&lex).clone();
                match l.class {
                    "prefixed_int" | "upper_prefixed_int" => l.start + 2,
                    "exponent_float" | "dot_exponent_float" => {
                        let mine: Vec<usize> = exp_tears
                            .iter()
                            .filter(|(_, ix)| lex[*ix].start == l.start)
                            .map(|(p, _)| *p)
                            .collect();
                        if mine.is_empty() {
                            l.start + 1
                        } else {
                            *r.pick(&mine)
                        }
                    }
                    "block_comment" => l.start + 2 + r.below(l.end - l.start - 2),
                    "version" => l.start + 9 + r.below((l.end - l.start).saturating_sub(9).max(1)),
                    "string" => {
                        // half of the time right after an escaped quote character, if there is one
                        // (the kept text then ends in `\'` or `\"`, which does not close the string)
                        let after_escaped_quote: Vec<usize> = (l.start + 3..l.end)
                            .filter(|p| bytes[p - 2] == b'\\' && (bytes[p - 1] == b'\'' || bytes[p - 1] == b'"'))
                            .filter(|p| *p < 3 + l.start || bytes[p - 3] != b'\\')
                            .collect();
                        if !after_escaped_quote.is_empty() && r.chance(1, 2) {
                            *r.pick(&after_escaped_quote)
                        } else {
                            l.start + 1 + r.below(l.end - l.start - 1)
                        }
                    }
                    _ => l.start + 1 + r.below(l.end - l.start - 1),
                }
            } else {
                r.below(bytes.len())
            };
            let cut = cut.min(bytes.len());
            w.nodes.insert(path.clone(), Node::File(bytes[..cut].to_vec()));
            w.meta.remove(&path);
            let g3 = if std::str::from_utf8(&bytes[..cut]).is_ok() { g3_for(cut) } else { None };
            w.damage.push(Damage { path, kind: "torn".into(), at: cut, g3 });
            Some("torn")
        }
        "garbage" => {
            // a few bytes of garbage written at a statement boundary: malformed lexemes of the
            // classes C11 names (some with multi-byte characters), possibly several
            let text = String::from_utf8(bytes.clone()).ok()?;
            let starts: Vec<usize> = w.meta.get(&path).map(|m| m.stmt_starts.clone()).unwrap_or_default();
            let mut t = text.clone();
            // (junk, class of the malformed lexeme it contains, offset of that lexeme in the junk)
            // A class is given only where the lexeme is malformed whatever follows it.
            const JUNK: &[(&str, Option<&str>, usize)] = &[
                (" 0x ", Some("garbage_prefixed_int"), 1),
                (" 0b; ", Some("garbage_prefixed_int"), 1),
                (" 1e ", Some("garbage_exponent_float"), 1),
                (" 2.5e+ ", Some("garbage_exponent_float"), 1),
                // more spellings of each class (all diagnosed on the lexeme by the unchanged lexer)
                (" 0x_ ", Some("garbage_prefixed_int"), 1),
                (" 0b_ ", Some("garbage_prefixed_int"), 1),
                (" 0o_; ", Some("garbage_prefixed_int"), 1),
                (" 0xg ", Some("garbage_prefixed_int"), 1),
                (" 0x. ", Some("garbage_prefixed_int"), 1),
                (" 1e_ ", Some("garbage_exponent_float"), 1),
                (" 1E ", Some("garbage_exponent_float"), 1),
                (" 1_0e ", Some("garbage_exponent_float"), 1),
                (" .5e ", Some("garbage_exponent_float"), 1),
                (" 1e-; ", Some("garbage_exponent_float"), 1),
                (" 1.0E+) ", Some("garbage_exponent_float"), 1),
                (" OPENQASM 3.x; ", Some("garbage_version"), 1),
                (" OPENQASM three; ", Some("garbage_version"), 1),
                (" OPENQASM 3.1.2; ", Some("garbage_version"), 1),
                (" OPENQASM 3.1x; ", Some("garbage_version"), 1),
                (" OPENQASM -3; ", Some("garbage_version"), 1),
                (" _🙂_ ", Some("garbage_invalid_ident"), 1),
                (" é🙂 ", Some("garbage_invalid_ident"), 1),
                (" 🙂 ", Some("garbage_invalid_ident"), 1),
                // version headers without a major number
                (" OPENQASM .1; ", Some("garbage_version"), 1),
                (" OPENQASM ; ", Some("garbage_version"), 1),
                (" OPENQASM 3.; ", Some("garbage_version"), 1),
                // an exponent marker without digits after a base prefix
                (" 0b1e ", Some("garbage_exponent_float"), 1),
                (" 0o17E+ ", Some("garbage_exponent_float"), 1),
                (" 0x1.5e; ", Some("garbage_exponent_float"), 1),
                (" x🙂y ", Some("garbage_invalid_ident"), 1),
                (" $🙂 ", Some("garbage_invalid_ident"), 1),
                (" #foo ", Some("garbage_invalid_ident"), 1),
                // `#` may only begin `#pragma` and `#dim`: near misses of both (s122)
                (" #dq ", Some("garbage_invalid_ident"), 1),
                (" #d ", Some("garbage_invalid_ident"), 1),
                (" #di; ", Some("garbage_invalid_ident"), 1),
                (" #diameter ", Some("garbage_invalid_ident"), 1),
                (" #pq ", Some("garbage_invalid_ident"), 1),
                (" #prag; ", Some("garbage_invalid_ident"), 1),
                (" #pragmaa ", Some("garbage_invalid_ident"), 1),
                (" #_ ", Some("garbage_invalid_ident"), 1),
                (" #9 ", Some("garbage_invalid_ident"), 1),
                (" us🇺🇸 ", Some("garbage_invalid_ident"), 1),
                (" 🏽gate ", Some("garbage_invalid_ident"), 1),
                (" k❤ ", Some("garbage_invalid_ident"), 1),
                // the same after a character the lexer does not know (a NUL, as in a partly
                // zeroed block): "wherever it occurs"
                (" \0 0x ", Some("garbage_prefixed_int"), 3),
                ("\0\0 1e ", Some("garbage_exponent_float"), 3),
                (" \0 b❤ ", Some("garbage_invalid_ident"), 3),
                (" № 0o ", Some("garbage_prefixed_int"), 5),
                (" \"open ", None, 0),
                (" /* open ", None, 0),
                (" é€§ ", None, 0),
                (" \"é\\q\"; ", None, 0),
                (" \"\\x\"; ", None, 0),
                (" \"ab\\u{110000}\"; ", None, 0),
                // found by the validation pass only (the parser accepts it)
                (" duration dq = 10 xs; ", None, 0),
                (" delay[3 µz] $0; ", None, 0),
                // bad escapes whose last character is multi-byte
                (" \"\\é\"; ", None, 0),
                (" \"ab\\€c\"; ", None, 0),
                (" \"\\x4🦀\"; ", None, 0),
                (" \"é\\u{é}\"; ", None, 0),
                (" \"\r\né\\q\"; ", None, 0),
                (" \"a\r\n\r\n☃\\x\"; ", None, 0),
            ];
            // A quarter of the time the garbage is written at the very end of a pristine file
            // instead (after a newline): what is left open there stays open, so every entry is
            // malformed whatever the file holds.
            const JUNK_AT_EOF: &[(&str, &str)] = &[
                ("\"0_1", "eof_bit_string"),
                ("\"0__1", "eof_bit_string"),
                ("\"01__", "eof_bit_string"),
                ("\"__", "eof_bit_string"),
                ("\"", "eof_string"),
                ("\"abc", "eof_string"),
                ("'abc\\'", "eof_string"),
                ("\"é\\\"", "eof_string"),
                ("/* open", "eof_block_comment"),
                ("/*/", "eof_block_comment"),
                ("/* a /* b */", "eof_block_comment"),
                ("0x", "eof_prefixed_int"),
                ("0b_", "eof_prefixed_int"),
                ("1e+", "eof_exponent_float"),
                ("2.5E", "eof_exponent_float"),
                ("OPENQASM 3.", "eof_version"),
                ("OPENQASM 3.1.", "eof_version"),
                ("k🙂", "eof_invalid_ident"),
                ("#d", "eof_invalid_ident"),
                ("#di", "eof_invalid_ident"),
                ("#pragm", "eof_invalid_ident"),
                ("#", "eof_invalid_ident"),
            ];
            if !starts.is_empty() && !w.damage.iter().any(|d| d.path == path) && r.chance(1, 4) {
                let (junk, class) = *r.pick(JUNK_AT_EOF);
                let at = t.len();
                t.push('\n');
                t.push_str(junk);
                w.nodes.insert(path.clone(), Node::File(t.into_bytes()));
                w.meta.remove(&path);
                w.damage.push(Damage { path, kind: "garbage".into(), at, g3: Some((class.to_string(), at + 1)) });
                return Some("garbage");
            }
            let n = 1 + r.below(2);
            let mut first_at = 0;
            let mut g3: Option<(String, usize)> = None;
            for k in 0..n {
                let at = if starts.is_empty() { t.len() } else { *r.pick(&starts) };
                let at = at.min(t.len());
                if !t.is_char_boundary(at) {
                    continue;
                }
                let (junk, class, off) = *r.pick(JUNK);
                t.insert_str(at, junk);
                if k == 0 {
                    first_at = at;
                    // only for a pristine file: the insertion point is then a statement start
                    let at_token_boundary = token_spans.iter().any(|(s, _)| *s == at) || at == text.len();
                    if n == 1
                        && at_token_boundary
                        && !starts.is_empty()
                        && !w.damage.iter().any(|d| d.path == path)
                    {
                        g3 = class.map(|c| (c.to_string(), at + off));
                    }
                }
            }
            if t == text {
                return None;
            }
            // the record is only kept if the pristine text tokenises cleanly around the spot
            // (the insertion point is a statement start, never inside a comment or string)
            w.nodes.insert(path.clone(), Node::File(t.into_bytes()));
            w.meta.remove(&path);
            w.damage.push(Damage { path, kind: "garbage".into(), at: first_at, g3 });
            Some("garbage")
        }
        "zero_tail" => {
            if bytes.is_empty() {
                return None;
            }
            let cut = r.below(bytes.len());
            let mut b = bytes.clone();
            for x in b[cut..].iter_mut() {
                *x = 0;
            }
            w.nodes.insert(path.clone(), Node::File(b));
            w.meta.remove(&path);
            w.damage.push(Damage { path, kind: "zero_tail".into(), at: cut, g3: None });
            Some("zero_tail")
        }
        "flip" => {
            if bytes.is_empty() {
                return None;
            }
            let at = r.below(bytes.len());
            let mut b = bytes.clone();
            let nb = if r.chance(1, 8) { b[at] ^ (1 << r.below(8)) } else { *r.pick(FLIP_BYTES) };
            if b[at] == nb {
                return None;
            }
            b[at] = nb;
            w.nodes.insert(path.clone(), Node::File(b));
            w.meta.remove(&path);
            w.damage.push(Damage { path, kind: "flip".into(), at, g3: None });
            Some("flip")
        }
        "bad_utf8" => {
            let mut b = bytes.clone();
            let at = r.below(b.len() + 1);
            b.insert(at, *r.pick(&[0xffu8, 0xfe, 0xc3, 0x80]));
            if std::str::from_utf8(&b).is_ok() {
                return None;
            }
            w.nodes.insert(path.clone(), Node::File(b));
            w.meta.remove(&path);
            w.damage.push(Damage { path, kind: "bad_utf8".into(), at, g3: None });
            Some("bad_utf8")
        }
        "dangling_link" => {
            // the name is a symbolic link to nothing: the probe says no, a read says ENOENT
            w.nodes.insert(path.clone(), Node::Link(format!("gone-{}", r.below(10))));
            w.meta.remove(&path);
            w.damage.push(Damage { path, kind: "dangling_link".into(), at: 0, g3: None });
            Some("dangling_link")
        }
        "link_loop" => {
            // the name is a symbolic link to itself (directly, or through a second link): ELOOP
            let name = path.rsplit('/').next().unwrap().to_string();
            if r.chance(1, 2) {
                w.nodes.insert(path.clone(), Node::Link(name));
            } else {
                let other = format!("{}.lnk", path);
                w.nodes.insert(other, Node::Link(name.clone()));
                w.nodes.insert(path.clone(), Node::Link(format!("{}.lnk", name)));
            }
            w.meta.remove(&path);
            w.damage.push(Damage { path, kind: "link_loop".into(), at: 0, g3: None });
            Some("link_loop")
        }
        "is_dir" => {
            w.nodes.insert(path.clone(), Node::Dir);
            w.meta.remove(&path);
            w.damage.push(Damage { path, kind: "is_dir".into(), at: 0, g3: None });
            Some("is_dir")
        }
        "missing" => {
            // remove every copy of that logical file from the listed directories
            let name = path.rsplit('/').next().unwrap().to_string();
            let all: Vec<String> = w
                .nodes
                .keys()
                .filter(|p| p.rsplit('/').next() == Some(name.as_str()) && !p.contains("/other/"))
                .cloned()
                .collect();
            for p in all {
                w.nodes.remove(&p);
                w.meta.remove(&p);
            }
            w.damage.push(Damage { path, kind: "missing".into(), at: 0, g3: None });
            Some("missing")
        }
        "notdir" => {
            // a search directory is a file
            let d = path.rsplitn(2, '/').nth(1).unwrap_or("/").to_string();
            if d.ends_with("/sub") || d == w.cwd {
                return None;
            }
            let prefix = format!("{}/", d);
            let below: Vec<String> = w.nodes.keys().filter(|p| p.starts_with(&prefix)).cloned().collect();
            for p in below {
                w.nodes.remove(&p);
                w.meta.remove(&p);
            }
            w.nodes.insert(d.clone(), Node::File(b"not a directory\n".to_vec()));
            w.damage.push(Damage { path: d, kind: "notdir".into(), at: 0, g3: None });
            Some("notdir")
        }
        "perm" => {
            let probe = if r.chance(1, 3) { Some(false) } else { None };
            w.faults.push(Fault::ReadErr { path, errno: simfs::EACCES, probe });
            Some("perm")
        }
        "eio" => {
            let errno = *r.pick(&[simfs::EIO, simfs::EIO, simfs::ESTALE, simfs::ELOOP]);
            w.faults.push(Fault::ReadErr { path, errno, probe: None });
            Some("eio")
        }
        _ => None,
    }
}

/// All single dynamic faults applicable to the fault-free history of `w`.
pub fn single_faults(r: &mut Rng, w: &World, history: &[simfs::Call], per_call_cap: usize) -> Vec<Fault> {
    let mut out = vec![];
    let junk: Vec<u8> = b"int[32] swapped_in;\nqubit swq;\n".to_vec();
    // the main file of a file entry point must stay readable (an unreadable main file is a
    // documented panic of the entry point, outside C18)
    let main_read_seq = if w.entry.is_file() {
        history.iter().find(|c| c.op == Op::Read).map(|c| c.seq)
    } else {
        None
    };
    for c in history {
        let at = c.seq;
        let mut here: Vec<Fault> = vec![];
        let before_main = main_read_seq.is_some_and(|m| at <= m);
        match (&c.op, &c.out) {
            (Op::Env, Out::Env(cur)) => {
                // the environment changes just before this lookup
                let other = format!("{}/other", w.cwd.trim_end_matches("/proj"));
                here.push(Fault::EnvAt { at, value: None });
                here.push(Fault::EnvAt { at, value: Some(other.clone()) });
                if let Some(c) = cur {
                    let rev: Vec<&str> = c.split(':').rev().collect();
                    here.push(Fault::EnvAt { at, value: Some(rev.join(":")) });
                }
            }
            (Op::IsFile, Out::Bool(true)) if before_main => {
                here.push(Fault::ProbeFalseAt { at });
            }
            (Op::Read, Out::Text(t)) if before_main => {
                if !t.is_empty() {
                    here.push(Fault::ShortReadAt { at, keep: r.below(t.len()) });
                    here.push(Fault::ZeroTailAt { at, from: r.below(t.len()) });
                    here.push(Fault::FlipAt { at, offset: r.below(t.len()), byte: *r.pick(FLIP_BYTES) });
                }
            }
            (Op::IsFile, Out::Bool(true)) => {
                if let Some(p) = &c.resolved {
                    here.push(Fault::Remove { at: at + 1, path: p.clone() }); // vanish before the read
                    here.push(Fault::Put { at: at + 1, path: p.clone(), bytes: junk.clone() }); // swap
                }
                here.push(Fault::ProbeFalseAt { at });
            }
            (Op::IsFile, Out::Bool(false)) => {
                // appear: the file is created in this (earlier) directory just before the probe
                if !c.path.ends_with('/') && !c.path.is_empty() {
                    if let Ok(abs) = abs_of(w, &c.path) {
                        here.push(Fault::Put { at, path: abs, bytes: junk.clone() });
                    }
                }
            }
            (Op::Read, Out::Text(t)) => {
                here.push(Fault::ReadErrAt { at, errno: simfs::EIO });
                here.push(Fault::ReadErrAt { at, errno: simfs::EACCES });
                here.push(Fault::ReadErrAt { at, errno: simfs::ENOENT });
                here.push(Fault::ReadErrAt { at, errno: simfs::EISDIR });
                if !t.is_empty() {
                    here.push(Fault::ShortReadAt { at, keep: r.below(t.len()) });
                    here.push(Fault::ShortReadAt { at, keep: 0 });
                    here.push(Fault::ZeroTailAt { at, from: r.below(t.len()) });
                    here.push(Fault::FlipAt { at, offset: r.below(t.len()), byte: *r.pick(FLIP_BYTES) });
                }
                if let Some(p) = &c.resolved {
                    here.push(Fault::Put { at, path: p.clone(), bytes: junk.clone() }); // swapped just before the read
                }
            }
            _ => {}
        }
        while here.len() > per_call_cap {
            let i = r.below(here.len());
            here.remove(i);
        }
        out.extend(here);
    }
    out
}

fn abs_of(w: &World, p: &str) -> Result<String, ()> {
    // lexical normalisation is enough here: the result is only used as the place of a new file
    let joined = if p.starts_with('/') { p.to_string() } else { format!("{}/{}", w.cwd, p) };
    let mut parts: Vec<&str> = vec![];
    for c in joined.split('/') {
        match c {
            "" | "." => {}
            ".." => {
                parts.pop();
            }
            x => parts.push(x),
        }
    }
    if parts.is_empty() {
        return Err(());
    }
    Ok(format!("/{}", parts.join("/")))
}

/// The worlds of one run index: one world in the static/dynamic/cycle strata, several in the
/// single-fault sweep stratum.
pub fn gen_cases(r: &mut Rng, profile: Profile, root: &str) -> (Stratum, Vec<World>) {
    let stratum = match r.below(100) {
        0..=59 => Stratum::Static,
        60..=87 => Stratum::Dynamic,
        88..=92 => Stratum::Sweep,
        _ => Stratum::Cycle,
    };
    gen_cases_in(r, profile, root, stratum)
}

pub fn gen_cases_in(r: &mut Rng, profile: Profile, root: &str, stratum: Stratum) -> (Stratum, Vec<World>) {
    let mut g = gen_pristine(r, profile, root, stratum == Stratum::Cycle);
    g.world.notes.push(format!("stratum={}", stratum.name()));
    match stratum {
        Stratum::Cycle => (stratum, vec![g.world]),
        Stratum::Static => {
            let p_fault = match profile {
                Profile::Includes => 40,
                Profile::Gating => 70,
                Profile::Spans => 55,
            };
            if r.chance(p_fault, 100) {
                let n = if r.chance(1, 5) { 2 } else { 1 };
                for _ in 0..n {
                    static_damage(r, &mut g, profile);
                }
            }
            (stratum, vec![g.world])
        }
        Stratum::Dynamic | Stratum::Sweep => {
            if stratum == Stratum::Dynamic && r.chance(1, 4) {
                static_damage(r, &mut g, profile);
            }
            let base = run_world(&g.world);
            if !matches!(base.result, RunResult::Returned(_)) || base.history.is_empty() {
                return (stratum, vec![g.world]);
            }
            let faults = single_faults(r, &g.world, &base.history, if stratum == Stratum::Sweep { 12 } else { 4 });
            if faults.is_empty() {
                return (stratum, vec![g.world]);
            }
            // a fault may change which calls follow: give the run room
            g.world.budget += 16;
            if stratum == Stratum::Dynamic {
                let mut w = g.world.clone();
                let n = 1 + r.below(2);
                for _ in 0..n {
                    w.faults.push(r.pick(&faults).clone());
                }
                (stratum, vec![w])
            } else {
                let mut ws = vec![];
                let mut fs = faults;
                while fs.len() > 24 {
                    let i = r.below(fs.len());
                    fs.remove(i);
                }
                for f in fs {
                    let mut w = g.world.clone();
                    w.faults.push(f);
                    ws.push(w);
                }
                (stratum, ws)
            }
        }
    }
}
